package explore

import (
	"testing"

	"verif/shim/vsched"
	"verif/shim/vsync"
)

// The Cond shim under the controlled scheduler: two waiters, one Signal and one Broadcast; in every
// schedule (unbounded preemptions) both waiters are released, nothing deadlocks, and the
// no-lost-wake-up discipline (predicate re-checked under the lock) holds.
func TestCondUnderScheduler(t *testing.T) {
	outcomes := map[string]int{}
	st := DFS(func() {
		var mu vsync.Mutex
		c := vsync.NewCond(&mu)
		tokens, got := 0, 0
		waiter := func() {
			mu.Lock()
			for tokens == 0 {
				c.Wait()
			}
			tokens--
			got++
			mu.Unlock()
		}
		a := vsched.Spawn("w1", waiter)
		b := vsched.Spawn("w2", waiter)
		s := vsched.Spawn("sig", func() {
			mu.Lock()
			tokens++
			c.Signal()
			mu.Unlock()
			mu.Lock()
			tokens++
			c.Broadcast()
			mu.Unlock()
		})
		vsched.Join(a, b, s)
		if got != 2 || tokens != 0 {
			panic("cond: wrong final state")
		}
	}, func(res *vsched.Result, choices []int) string {
		outcomes[res.Outcome.String()]++
		return res.Outcome.String()
	}, Options{Bound: 3})
	if !st.Complete || len(outcomes) != 1 || outcomes[vsched.Done.String()] == 0 {
		t.Fatalf("executions=%d complete=%v outcomes=%v", st.Execs, st.Complete, outcomes)
	}
	t.Logf("executions=%d", st.Execs)
}

// A lost wake-up IS found: the predicate is set without holding the lock before Signal, and the
// waiter checks it before it starts waiting.
func TestCondLostWakeupFound(t *testing.T) {
	deadlocks := 0
	DFS(func() {
		var mu vsync.Mutex
		c := vsync.NewCond(&mu)
		var flag vsyncFlag
		a := vsched.Spawn("w", func() {
			if !flag.get() { // check outside the lock: the classic mistake
				mu.Lock()
				c.Wait()
				mu.Unlock()
			}
		})
		s := vsched.Spawn("sig", func() {
			flag.set()
			c.Signal()
		})
		vsched.Join(a, s)
	}, func(res *vsched.Result, choices []int) string {
		if res.Outcome == vsched.Deadlock {
			deadlocks++
		}
		return res.Outcome.String()
	}, Options{Bound: 2})
	if deadlocks == 0 {
		t.Fatal("the lost wake-up schedule was not explored")
	}
}

type vsyncFlag struct {
	mu vsync.Mutex
	v  bool
}

func (f *vsyncFlag) get() bool { f.mu.Lock(); defer f.mu.Unlock(); return f.v }
func (f *vsyncFlag) set()      { f.mu.Lock(); f.v = true; f.mu.Unlock() }
