// Package explore contains the explorers that drive vsched: a stateless depth-first search
// over the choice tree with a preemption (deviation) bound, replay of recorded schedules, and
// helpers shared by the property checks.
package explore

import (
	"fmt"
	"time"

	"verif/shim/vsched"
)

// prefixChooser replays a recorded choice prefix (validating the signature of every point it
// replays) and takes choice 0 afterwards.
type prefixChooser struct {
	prefix []int
	sigs   []uint64 // expected signatures for the prefix (may be shorter: unchecked beyond)
	bad    string
}

func (c *prefixChooser) Choose(i int, p *vsched.Point) int {
	if i < len(c.prefix) {
		if i < len(c.sigs) && c.sigs[i] != p.Sig && c.bad == "" {
			c.bad = fmt.Sprintf("point %d: enabled-set signature differs from the recorded one (uncontrolled nondeterminism)", i)
		}
		if c.prefix[i] >= p.N {
			if c.bad == "" {
				c.bad = fmt.Sprintf("point %d: recorded choice %d but only %d enabled", i, c.prefix[i], p.N)
			}
			return -1
		}
		return c.prefix[i]
	}
	return 0
}

// Stats of one exploration.
type Stats struct {
	Execs        int64
	Points       int64 // transitions executed in total
	BranchPoints int64 // (point, alternative) pairs expanded
	MaxDepth     int
	Bound        int   // preemption bound of this run
	Complete     bool  // the whole tree within the bound was explored
	Outcomes     map[string]int64
	Deadlocks    int64
	Panics       int64
	CapHit       string
}

type Options struct {
	Bound    int
	MaxExecs int64
	Deadline time.Time
	MaxSteps int
	// Prefix restricts the search to the subtree below this choice prefix.
	Prefix []int
}

// Body is one scenario: it is run as thread 0 of a fresh execution.
type Body func()

// Verdict is called after every execution with its result and the full choice list; it
// returns a short outcome label (used for counting distinct outcomes).
type Verdict func(res *vsched.Result, choices []int) string

type frame struct {
	choices []int
	sigs    []uint64
	from    int // first point index at which alternatives of this execution are expanded
	cost    int // preemptions spent in choices[:from]
}

func choicesOf(pts []vsched.Point) ([]int, []uint64) {
	c := make([]int, len(pts))
	s := make([]uint64, len(pts))
	for i := range pts {
		c[i] = pts[i].Chosen
		s[i] = pts[i].Sig
	}
	return c, s
}

// stepCost is the preemption cost of taking alternative alt at point p.
func stepCost(p *vsched.Point, alt int) int {
	if p.NRunning > 0 && !p.Yield && alt >= p.NRunning {
		return 1
	}
	return 0
}

// DFS explores every execution of body whose number of preemptions is at most opts.Bound.
func DFS(body Body, verdict Verdict, opts Options) *Stats {
	st := &Stats{Bound: opts.Bound, Outcomes: map[string]int64{}, Complete: true}
	type work struct {
		prefix []int
		sigs   []uint64
		cost   int
	}
	stack := []work{{prefix: append([]int(nil), opts.Prefix...)}}
	first := true
	for len(stack) > 0 {
		if opts.MaxExecs > 0 && st.Execs >= opts.MaxExecs {
			st.Complete = false
			st.CapHit = fmt.Sprintf("max executions %d", opts.MaxExecs)
			break
		}
		if !opts.Deadline.IsZero() && st.Execs&63 == 0 && time.Now().After(opts.Deadline) {
			st.Complete = false
			st.CapHit = "deadline"
			break
		}
		w := stack[len(stack)-1]
		stack = stack[:len(stack)-1]
		ch := &prefixChooser{prefix: w.prefix, sigs: w.sigs}
		res := vsched.Run(body, ch, vsched.Options{MaxSteps: opts.MaxSteps})
		if vsched.EventsOverflow() {
			panic("explore: the observation log overflowed (raise vsched.MaxEvents); refusing to judge a truncated execution")
		}
		if ch.bad != "" || res.Outcome == vsched.ReplayDiverged {
			panic("explore: replay diverged: " + ch.bad + " " + res.Detail)
		}
		st.Execs++
		st.Points += int64(len(res.Points))
		if len(res.Points) > st.MaxDepth {
			st.MaxDepth = len(res.Points)
		}
		choices, sigs := choicesOf(res.Points)
		label := verdict(res, choices)
		st.Outcomes[label]++
		if vsched.Stuck {
			st.Complete = false
			st.CapHit = "a thread got stuck (reported as livelock); exploration stopped"
			break
		}
		switch res.Outcome {
		case vsched.Deadlock:
			st.Deadlocks++
		case vsched.Panicked:
			st.Panics++
		}
		// cost of the prefix part when this is the root of a restricted search
		cost := w.cost
		start := len(w.prefix)
		if first {
			first = false
			cost = 0
			for i := 0; i < start && i < len(res.Points); i++ {
				cost += stepCost(&res.Points[i], res.Points[i].Chosen)
			}
		}
		// expand alternatives, deepest first so that the stack pops shallow ones last (DFS)
		run := cost
		type alt struct {
			i, a, c int
		}
		var alts []alt
		for i := start; i < len(res.Points); i++ {
			p := &res.Points[i]
			if !p.Frozen {
				for a := 1; a < p.N; a++ {
					c := run + stepCost(p, a)
					if c <= opts.Bound {
						alts = append(alts, alt{i, a, c})
					}
				}
			}
			run += stepCost(p, p.Chosen)
		}
		for k := len(alts) - 1; k >= 0; k-- {
			al := alts[k]
			np := make([]int, al.i+1)
			copy(np, choices[:al.i])
			np[al.i] = al.a
			stack = append(stack, work{prefix: np, sigs: sigs[:al.i+1], cost: al.c})
			st.BranchPoints++
		}
	}
	return st
}

// Replay runs body once with the given choice list (choice 0 beyond it) and a trace.
func Replay(body Body, choices []int, maxSteps int) *vsched.Result {
	ch := &prefixChooser{prefix: choices}
	res := vsched.Run(body, ch, vsched.Options{MaxSteps: maxSteps, Trace: true})
	if ch.bad != "" && res.Outcome != vsched.ReplayDiverged {
		res.Outcome = vsched.ReplayDiverged
		res.Detail = ch.bad
	}
	return res
}
