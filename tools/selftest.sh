#!/bin/bash
# Rewriter / shim self-test: the repository's OWN test suite (root package and z) is run against
# the rewritten sources with the shims in pass-through mode (no scheduler attached). Same verdicts
# as the baseline = the instrumentation preserves semantics on everything the suite exercises.
set -e
cd "$(dirname "$0")/.."
export GOFLAGS=-mod=mod GOPROXY=off GOSUMDB=off GOTOOLCHAIN=local CGO_ENABLED=0
mkdir -p .build/tools .build/selftest
go1.26 build -o .build/tools/instrument ./tools/instrument
.build/tools/instrument -repo ${VERIF_REPO:-/repo} -verif "$PWD" -out .build/selftest -mode sched -overlay .build/selftest/overlay.json
cp go.mod go.sum .build/selftest/
go1.26 test -modfile=.build/selftest/go.mod -tags verif,verifsched -overlay .build/selftest/overlay.json -vet=off -count=1 \
  github.com/dgraph-io/ristretto/v2 github.com/dgraph-io/ristretto/v2/z
rm -rf .build/selftest
