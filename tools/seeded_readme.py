#!/usr/bin/env python3
"""Regenerates /verif/seeded/README.md from the meta.json files."""
import json, glob, os
rows = []
for f in sorted(glob.glob('/verif/seeded/*/meta.json')):
    m = json.load(open(f))
    what = (m.get('what') or '').strip().split('\n')
    title = next((l.strip('# ').strip() for l in what if l.strip()), '')[:110]
    det = m.get('detected_by') or []
    chk = m.get('checks') or {}
    ran = ', '.join('%s:%s' % (c, {0: 'pass', 1: 'VIOLATION', 2: 'error'}.get(r['exit'], r['exit'])) for c, r in chk.items())
    keys = sorted({k for r in chk.values() for k in r.get('violation_keys', [])})
    rows.append((m['seed'], m['property'], title, ', '.join(det) or '**none**', ran, '; '.join(keys)[:160]))
out = ['# Seeded changes', '',
       'Each directory holds `patch.diff` (the change), `demo_test.go` (fails with the change, passes without) and `meta.json`',
       '(what it needs to manifest, what was run to confirm it, which checks were run against it and with what result).',
       'Changes were written by independent sub-agents that saw only the property text and a scratch worktree of the repository;',
       'none is ever committed to /repo. `detected by` lists the checks whose quick tier reports a VIOLATION on the changed tree.', '',
       '| seed | breaks | change (first line of its README) | detected by | checks run | violation keys |', '|---|---|---|---|---|---|']
for r in rows:
    out.append('| ' + ' | '.join(x.replace('|', '/') for x in r) + ' |')
open('/verif/seeded/README.md', 'w').write('\n'.join(out) + '\n')
print(len(rows), 'seeds')
