// instrument: type-aware source rewriter producing a `go build -overlay` file that routes the
// synchronisation, time and channel operations of the CURRENT /repo tree through the shim
// packages of module verif. /repo itself is never modified. See DESIGN.md §2.1 / Appendix A.
package main

import (
	"bytes"
	"encoding/json"
	"flag"
	"fmt"
	"go/ast"
	"go/build"
	"go/importer"
	"go/parser"
	"go/token"
	"go/types"
	"io"
	"os"
	"os/exec"
	"path/filepath"
	"sort"
	"strconv"
	"strings"
)

const modPath = "github.com/dgraph-io/ristretto/v2"

type pkgSpec struct {
	dir     string            // relative to repo
	imports map[string]string // import path -> shim path, applied to every file unless fileImports has the file
	// files that get the full construct rewrite (nil = all files)
	full func(name string) bool
	// per-file import maps overriding imports
	fileImports map[string]map[string]string
	export      string // directory under verif/export whose files are added as zz_verif_<name>.go
}

func fail(format string, a ...any) {
	fmt.Fprintf(os.Stderr, "instrument: "+format+"\n", a...)
	os.Exit(2)
}

func main() {
	repo := flag.String("repo", "/repo", "repository root")
	verif := flag.String("verif", "/verif", "verif root")
	out := flag.String("out", "", "output directory for rewritten sources")
	mode := flag.String("mode", "sched", "seq | sched")
	ovPath := flag.String("overlay", "", "overlay json to write")
	flag.Parse()
	if *out == "" || *ovPath == "" {
		fail("need -out and -overlay")
	}

	logMap := map[string]string{"log": "verif/shim/vlog"}
	var specs []pkgSpec
	switch *mode {
	case "seq":
		specs = []pkgSpec{
			{dir: ".", imports: map[string]string{}, full: func(string) bool { return false }, export: "root"},
			{dir: "z", imports: logMap, full: func(string) bool { return false }, export: "z"},
		}
	case "sched":
		specs = []pkgSpec{
			{dir: ".", imports: map[string]string{
				"sync": "verif/shim/vsync", "sync/atomic": "verif/shim/vatomic", "time": "verif/shim/vtime", "log": "verif/shim/vlog"},
				export: "root"},
			{dir: "z", imports: logMap,
				full: func(n string) bool { return n == "allocator.go" },
				fileImports: map[string]map[string]string{
					"allocator.go": {"sync": "verif/shim/vsync", "sync/atomic": "verif/shim/vatomic", "log": "verif/shim/vlog"}},
				export: "z"},
		}
	default:
		fail("bad mode %q", *mode)
	}

	exports := listExports(*repo)
	overlay := map[string]string{}
	for _, sp := range specs {
		rewritePkg(*repo, *verif, *out, sp, exports, overlay)
	}
	b, _ := json.MarshalIndent(map[string]any{"Replace": overlay}, "", " ")
	if err := os.WriteFile(*ovPath, b, 0o644); err != nil {
		fail("%v", err)
	}
}

// listExports maps import path -> export data file for every dependency of the repo packages.
func listExports(repo string) map[string]string {
	cmd := exec.Command(goBin(), "list", "-export", "-deps", "-f", "{{.ImportPath}}\t{{.Export}}", ".", "./z")
	cmd.Dir = repo
	cmd.Env = os.Environ()
	var stderr bytes.Buffer
	cmd.Stderr = &stderr
	outb, err := cmd.Output()
	if err != nil {
		fail("go list -export failed (tree does not compile?): %v\n%s", err, stderr.String())
	}
	m := map[string]string{}
	for _, ln := range strings.Split(string(outb), "\n") {
		f := strings.Split(ln, "\t")
		if len(f) == 2 && f[1] != "" {
			m[f[0]] = f[1]
		}
	}
	return m
}

func goBin() string {
	if g := os.Getenv("VERIF_GO"); g != "" {
		return g
	}
	return "go1.26"
}

func rewritePkg(repo, verif, out string, sp pkgSpec, exports map[string]string, overlay map[string]string) {
	dir := filepath.Join(repo, sp.dir)
	ents, err := os.ReadDir(dir)
	if err != nil {
		fail("%v", err)
	}
	ctx := build.Default
	ctx.GOOS, ctx.GOARCH = "linux", "amd64"
	ctx.CgoEnabled = false
	ctx.BuildTags = nil // the verif tag only guards the export files, which we add below
	fset := token.NewFileSet()
	var files []*ast.File
	var names []string
	srcs := map[string][]byte{}
	for _, e := range ents {
		n := e.Name()
		if e.IsDir() || !strings.HasSuffix(n, ".go") || strings.HasSuffix(n, "_test.go") || strings.HasPrefix(n, "zz_verif") {
			continue
		}
		ok, err := ctx.MatchFile(dir, n)
		if err != nil || !ok {
			continue
		}
		src, err := os.ReadFile(filepath.Join(dir, n))
		if err != nil {
			fail("%v", err)
		}
		f, err := parser.ParseFile(fset, filepath.Join(dir, n), src, parser.ParseComments|parser.SkipObjectResolution)
		if err != nil {
			fail("parse: %v", err)
		}
		files = append(files, f)
		names = append(names, n)
		srcs[n] = src
	}
	info := &types.Info{Types: map[ast.Expr]types.TypeAndValue{}, Uses: map[*ast.Ident]types.Object{}, Defs: map[*ast.Ident]types.Object{}}
	lookup := func(path string) (io.ReadCloser, error) {
		p, ok := exports[path]
		if !ok {
			return nil, fmt.Errorf("no export data for %s", path)
		}
		return os.Open(p)
	}
	conf := types.Config{Importer: importer.ForCompiler(fset, "gc", lookup), Error: func(error) {}}
	pkgPath := modPath
	if sp.dir != "." {
		pkgPath += "/" + sp.dir
	}
	var firstErr error
	conf.Error = func(e error) {
		if firstErr == nil {
			firstErr = e
		}
	}
	_, _ = conf.Check(pkgPath, fset, files, info)
	if firstErr != nil {
		fail("type check of %s failed: %v", pkgPath, firstErr)
	}

	outDir := filepath.Join(out, "src", sp.dir)
	if err := os.MkdirAll(outDir, 0o755); err != nil {
		fail("%v", err)
	}
	for i, f := range files {
		n := names[i]
		imps := sp.imports
		if fi, ok := sp.fileImports[n]; ok {
			imps = fi
		}
		full := sp.full == nil || sp.full(n)
		rw := &rewriter{fset: fset, file: f, src: srcs[n], info: info, imports: imps, full: full}
		res, changed := rw.run()
		if !changed {
			continue
		}
		dst := filepath.Join(outDir, n)
		if err := os.WriteFile(dst, res, 0o644); err != nil {
			fail("%v", err)
		}
		overlay[filepath.Join(dir, n)] = dst
	}
	if sp.export != "" {
		// every file of export/<dir> is added to the package as zz_verif_<name>
		exps, _ := filepath.Glob(filepath.Join(verif, "export", sp.export, "*.go"))
		for _, e := range exps {
			overlay[filepath.Join(dir, "zz_verif_"+filepath.Base(e))] = e
		}
	}
}

// ---------------------------------------------------------------------------------------------

type site struct {
	start, end int // byte offsets
	render     func() string
}

type rewriter struct {
	fset    *token.FileSet
	file    *ast.File
	src     []byte
	info    *types.Info
	imports map[string]string
	full    bool
	sites   []*site
	base    int
	usesV   bool
	keepUsed []string // expressions re-stated at the end of the file so that their imports stay used
	tmp     int
}

func (r *rewriter) off(p token.Pos) int { return r.fset.Position(p).Offset }

func (r *rewriter) add(n ast.Node, f func() string) *site {
	s := &site{start: r.off(n.Pos()), end: r.off(n.End()), render: f}
	r.sites = append(r.sites, s)
	return s
}

func (r *rewriter) addRange(start, end token.Pos, f func() string) {
	r.sites = append(r.sites, &site{start: r.off(start), end: r.off(end), render: f})
}

// text renders the original source of [start,end) with every outermost site inside replaced.
func (r *rewriter) text(start, end int) string { return r.textEx(start, end, nil) }

func (r *rewriter) textEx(start, end int, exclude *site) string {
	var b strings.Builder
	pos := start
	for _, s := range r.sites {
		if s == exclude || s.start < pos || s.end > end {
			continue
		}
		b.Write(r.src[pos:s.start])
		b.WriteString(s.render())
		pos = s.end
	}
	b.Write(r.src[pos:end])
	return b.String()
}

func (r *rewriter) node(n ast.Node) string { return r.text(r.off(n.Pos()), r.off(n.End())) }

func (r *rewriter) fresh(p string) string {
	r.tmp++
	return fmt.Sprintf("__v%s%d", p, r.tmp)
}

func (r *rewriter) run() ([]byte, bool) {
	// imports
	for _, is := range r.file.Imports {
		path, _ := strconv.Unquote(is.Path.Value)
		shim, ok := r.imports[path]
		if !ok {
			continue
		}
		is := is
		name := path[strings.LastIndex(path, "/")+1:]
		if is.Name != nil {
			name = is.Name.Name
		}
		r.addRange(is.Pos(), is.End(), func() string { return name + " " + strconv.Quote(shim) })
	}
	if r.full {
		r.collect()
	}
	if len(r.sites) == 0 {
		return nil, false
	}
	sort.SliceStable(r.sites, func(i, j int) bool {
		if r.sites[i].start != r.sites[j].start {
			return r.sites[i].start < r.sites[j].start
		}
		return r.sites[i].end > r.sites[j].end // outermost first
	})
	body := r.text(0, len(r.src))
	if r.usesV {
		// add the vsched import right after the package clause line
		pkgEnd := r.off(r.file.Name.End())
		// recompute on the rewritten text: package clause is never inside a site
		idx := strings.Index(body, string(r.src[r.off(r.file.Package):pkgEnd]))
		if idx < 0 {
			fail("cannot find package clause")
		}
		at := idx + (pkgEnd - r.off(r.file.Package))
		body = body[:at] + "; import __vsched \"verif/shim/vsched\"" + body[at:]
	}
	for _, e := range r.keepUsed {
		body += "\nvar _ = " + e + "\n"
	}
	return []byte(body), true
}

func (r *rewriter) isChan(e ast.Expr) bool {
	t := r.info.TypeOf(e)
	if t == nil {
		return false
	}
	_, ok := coreType(t).(*types.Chan)
	return ok
}

func coreType(t types.Type) types.Type {
	u := t.Underlying()
	if tp, ok := t.(*types.TypeParam); ok {
		// core type of a type parameter: take the single underlying of its constraint if any
		if iface, ok := tp.Constraint().Underlying().(*types.Interface); ok {
			var found types.Type
			for i := 0; i < iface.NumEmbeddeds(); i++ {
				et := iface.EmbeddedType(i)
				if un, ok := et.(*types.Union); ok && un.Len() > 0 {
					found = un.Term(0).Type().Underlying()
				} else {
					found = et.Underlying()
				}
			}
			if found != nil {
				return found
			}
		}
	}
	return u
}

func (r *rewriter) isMap(e ast.Expr) bool {
	t := r.info.TypeOf(e)
	if t == nil {
		return false
	}
	_, ok := coreType(t).(*types.Map)
	return ok
}

func unparen(e ast.Expr) ast.Expr {
	for {
		p, ok := e.(*ast.ParenExpr)
		if !ok {
			return e
		}
		e = p.X
	}
}

func (r *rewriter) collect() {
	recv2 := map[*ast.UnaryExpr]bool{}
	inSelectComm := map[ast.Stmt]bool{}
	ast.Inspect(r.file, func(n ast.Node) bool {
		switch x := n.(type) {
		case *ast.SelectStmt:
			for _, c := range x.Body.List {
				cc := c.(*ast.CommClause)
				if cc.Comm != nil {
					inSelectComm[cc.Comm] = true
				}
			}
		case *ast.AssignStmt:
			if len(x.Lhs) == 2 && len(x.Rhs) == 1 {
				if u, ok := unparen(x.Rhs[0]).(*ast.UnaryExpr); ok && u.Op == token.ARROW {
					recv2[u] = true
				}
			}
		case *ast.ValueSpec:
			if len(x.Names) == 2 && len(x.Values) == 1 {
				if u, ok := unparen(x.Values[0]).(*ast.UnaryExpr); ok && u.Op == token.ARROW {
					recv2[u] = true
				}
			}
		}
		return true
	})
	// comm statements of select clauses are rendered by the select site; find their inner
	// receive/send nodes so that they are not rewritten on their own.
	skip := map[ast.Node]bool{}
	for st := range inSelectComm {
		switch s := st.(type) {
		case *ast.SendStmt:
			skip[s] = true
		case *ast.ExprStmt:
			skip[unparen(s.X)] = true
		case *ast.AssignStmt:
			skip[unparen(s.Rhs[0])] = true
		}
	}
	ast.Inspect(r.file, func(n ast.Node) bool {
		switch x := n.(type) {
		case *ast.SendStmt:
			if skip[x] {
				return true
			}
			r.usesV = true
			r.add(x, func() string { return "__vsched.Send(" + r.node(x.Chan) + ", " + r.node(x.Value) + ")" })
		case *ast.UnaryExpr:
			if x.Op != token.ARROW || skip[x] {
				return true
			}
			r.usesV = true
			fn := "__vsched.Recv("
			if recv2[x] {
				fn = "__vsched.Recv2("
			}
			r.add(x, func() string { return fn + r.node(x.X) + ")" })
		case *ast.CallExpr:
			// runtime.Gosched(): the body of a polling loop must be visible to the scheduler
			if sel, ok := unparen(x.Fun).(*ast.SelectorExpr); ok && sel.Sel.Name == "Gosched" && len(x.Args) == 0 {
				if fn, isFn := r.info.Uses[sel.Sel].(*types.Func); isFn && fn.Pkg() != nil && fn.Pkg().Path() == "runtime" {
					r.usesV = true
					r.keepUsed = append(r.keepUsed, r.node(sel)) // the import must stay used
					r.add(x, func() string { return "__vsched.Gosched()" })
				}
			}
			if id, ok := unparen(x.Fun).(*ast.Ident); ok && id.Name == "close" && len(x.Args) == 1 {
				if _, isBuiltin := r.info.Uses[id].(*types.Builtin); isBuiltin {
					r.usesV = true
					r.add(x, func() string { return "__vsched.Close(" + r.node(x.Args[0]) + ")" })
				}
			}
		case *ast.RangeStmt:
			if r.isChan(x.X) {
				r.usesV = true
				var self *site
				self = r.add(x.X, func() string { return "__vsched.RangeChan(" + r.textEx(self.start, self.end, self) + ")" })
			} else if r.isMap(x.X) {
				r.usesV = true
				var self *site
				self = r.add(x.X, func() string { return "__vsched.MapRange(" + r.textEx(self.start, self.end, self) + ")" })
			}
		case *ast.GoStmt:
			r.usesV = true
			r.add(x, func() string { return r.renderGo(x) })
		case *ast.SelectStmt:
			r.usesV = true
			r.add(x, func() string { return r.renderSelect(x) })
		}
		return true
	})
}

func (r *rewriter) isConst(e ast.Expr) bool {
	tv, ok := r.info.Types[e]
	return ok && tv.Value != nil
}

func (r *rewriter) renderGo(g *ast.GoStmt) string {
	call := g.Call
	var b strings.Builder
	var lhs, rhs []string
	fn := r.fresh("f")
	lhs = append(lhs, fn)
	rhs = append(rhs, r.node(call.Fun))
	var args []string
	for _, a := range call.Args {
		if r.isConst(a) {
			args = append(args, r.node(a))
			continue
		}
		if id, ok := a.(*ast.Ident); ok && id.Name == "nil" {
			args = append(args, "nil")
			continue
		}
		t := r.fresh("a")
		lhs = append(lhs, t)
		rhs = append(rhs, r.node(a))
		args = append(args, t)
	}
	ell := ""
	if call.Ellipsis.IsValid() {
		ell = "..."
	}
	fmt.Fprintf(&b, "{ %s := %s; __vsched.Go(func() { %s(%s%s) }) }", strings.Join(lhs, ", "), strings.Join(rhs, ", "), fn, strings.Join(args, ", "), ell)
	return b.String()
}

func (r *rewriter) renderSelect(s *ast.SelectStmt) string {
	if len(s.Body.List) == 0 {
		return "__vsched.BlockForever()"
	}
	// The layout of the original is kept line for line: only `select {` and the `case …:` /
	// `default:` headers are replaced; clause bodies are spliced from the original text.
	var b strings.Builder
	var names, inits []string
	type clause struct {
		cc    *ast.CommClause
		name  string
		index int
	}
	var cls []clause
	hasDefault := false
	idx := 0
	for _, c := range s.Body.List {
		cc := c.(*ast.CommClause)
		if cc.Comm == nil {
			hasDefault = true
			cls = append(cls, clause{cc: cc, index: -1})
			continue
		}
		name := r.fresh("c")
		switch st := cc.Comm.(type) {
		case *ast.SendStmt:
			inits = append(inits, "__vsched.SendCase("+r.node(st.Chan)+", "+r.node(st.Value)+")")
		case *ast.ExprStmt:
			u := unparen(st.X).(*ast.UnaryExpr)
			inits = append(inits, "__vsched.RecvCase("+r.node(u.X)+")")
		case *ast.AssignStmt:
			u := unparen(st.Rhs[0]).(*ast.UnaryExpr)
			inits = append(inits, "__vsched.RecvCase("+r.node(u.X)+")")
		default:
			fail("unsupported select comm clause at %v", r.fset.Position(cc.Pos()))
		}
		names = append(names, name)
		cls = append(cls, clause{cc: cc, name: name, index: idx})
		idx++
	}
	if len(names) == 0 {
		b.WriteString("switch {")
	} else {
		fmt.Fprintf(&b, "switch %s := %s; __vsched.Select(%v, %s) {", strings.Join(names, ", "), strings.Join(inits, ", "), hasDefault, strings.Join(names, ", "))
	}
	// text between `{` and the first clause (comments, newlines)
	b.WriteString(r.text(r.off(s.Body.Lbrace)+1, r.off(cls[0].cc.Pos())))
	for k, c := range cls {
		switch {
		case c.index < 0 && len(names) == 0:
			b.WriteString("default:")
		case c.index < 0:
			fmt.Fprintf(&b, "case %d:", idx)
		default:
			fmt.Fprintf(&b, "case %d:", c.index)
			if as, ok := c.cc.Comm.(*ast.AssignStmt); ok {
				var l []string
				for _, e := range as.Lhs {
					l = append(l, r.node(e))
				}
				op := as.Tok.String()
				if len(as.Lhs) == 2 {
					fmt.Fprintf(&b, " %s %s %s.Val2();", strings.Join(l, ", "), op, c.name)
				} else {
					fmt.Fprintf(&b, " %s %s %s.Val();", l[0], op, c.name)
				}
			}
		}
		end := r.off(s.Body.Rbrace)
		if k+1 < len(cls) {
			end = r.off(cls[k+1].cc.Pos())
		}
		b.WriteString(r.text(r.off(c.cc.Colon)+1, end))
	}
	if len(names) != 0 {
		// keeps the statement terminating when every clause is (as the select was)
		b.WriteString("default: panic(\"vsched: bad select index\") ")
	}
	b.WriteString("}")
	return b.String()
}
