#!/usr/bin/env python3
"""Entry point of every registered check: rebuild the harness from /repo's current working
tree (instrumented through `go build -overlay`), then run it.

exit 0: property held on everything explored (KNOWN-FINDING lines possible)
exit 1: VIOLATION line printed
exit 2: harness error / tree does not build (never a VIOLATION)
"""
import json, os, subprocess, sys, shutil, tempfile

VERIF = os.path.dirname(os.path.dirname(os.path.abspath(__file__)))
REPO = os.environ.get("VERIF_REPO", "/repo")
GO = os.environ.get("VERIF_GO", "go1.26")

SEQ = {"C10", "C11", "C16", "C18", "C19", "C20"}
SCHED = {"S00", "C01", "C02", "C03", "C04", "C05", "C06", "C07", "C08", "C09", "C12", "C13", "C14", "C15", "C17"}


def goenv():
    e = dict(os.environ)
    e.update({"GOFLAGS": "-mod=mod", "GOPROXY": "off", "GOSUMDB": "off", "GOTOOLCHAIN": "local",
              "CGO_ENABLED": "0"})
    return e


def die(msg, code=2):
    print("HARNESS-ERROR: " + msg, file=sys.stderr)
    sys.exit(code)


def run(cmd, **kw):
    return subprocess.run(cmd, env=goenv(), cwd=VERIF, **kw)


def build_tool(name):
    """build a helper tool of the verif module (no overlay)"""
    out = os.path.join(VERIF, ".build", "tools", name)
    os.makedirs(os.path.dirname(out), exist_ok=True)
    p = run([GO, "build", "-o", out, "./tools/" + name], capture_output=True, text=True)
    if p.returncode != 0:
        die("building tool %s failed:\n%s" % (name, p.stderr))
    return out


def instrument(workdir, mode):
    """run the source rewriter over /repo's current tree; returns the overlay file"""
    tool = build_tool("instrument")
    ov = os.path.join(workdir, "overlay.json")
    p = run([tool, "-repo", REPO, "-verif", VERIF, "-out", workdir, "-mode", mode, "-overlay", ov],
            capture_output=True, text=True)
    if p.returncode != 0:
        die("cannot instrument the current tree (does it compile?):\n%s%s" % (p.stdout, p.stderr))
    return ov


def modfile_args(workdir):
    """when VERIF_REPO points at a scratch copy, build with a module file replacing to it"""
    if os.path.realpath(REPO) == "/repo":
        return []
    mf = os.path.join(workdir, "go.mod")
    if not os.path.exists(mf):
        src = open(os.path.join(VERIF, "go.mod")).read().replace("=> /repo", "=> " + os.path.realpath(REPO))
        open(mf, "w").write(src)
        shutil.copy(os.path.join(VERIF, "go.sum"), os.path.join(workdir, "go.sum"))
    return ["-modfile=" + mf]


def build(pkg, workdir, overlay, race=False, tags="verif"):
    out = os.path.join(workdir, os.path.basename(pkg) + (".race" if race else ""))
    cmd = [GO, "build"] + modfile_args(workdir) + ["-tags", tags, "-overlay", overlay, "-o", out]
    if race:
        cmd.insert(2, "-race")
    cmd.append(pkg)
    env = goenv()
    if race:
        env["CGO_ENABLED"] = "1"
    p = subprocess.run(cmd, env=env, cwd=VERIF, capture_output=True, text=True)
    if p.returncode != 0:
        die("harness build failed (tree does not compile under instrumentation?):\n%s" % p.stderr)
    return out


def main():
    if len(sys.argv) < 3:
        die("usage: check <ID> <quick|thorough> [--replay path]")
    pid, tier = sys.argv[1], sys.argv[2]
    rest = sys.argv[3:]
    os.makedirs(os.path.join(VERIF, ".build"), exist_ok=True)
    os.makedirs(os.path.join(VERIF, "evidence"), exist_ok=True)
    workdir = tempfile.mkdtemp(prefix="run-%s-" % pid, dir=os.path.join(VERIF, ".build"))
    code = 2
    try:
        if pid in SEQ:
            ov = instrument(workdir, "seq")
            binp = build("./cmd/zcheck", workdir, ov)
            code = subprocess.run([binp, pid, tier] + rest, cwd=VERIF, env=goenv()).returncode
        elif pid in SCHED:
            ov = instrument(workdir, "sched")
            binp = build("./cmd/ccheck", workdir, ov, tags="verif,verifsched")
            env = goenv()
            racebin = ""
            if pid in ("C08", "C12"):
                racebin = build("./cmd/ccheck", workdir, ov, race=True, tags="verif,verifsched")
            env["VERIF_RACE_BIN"] = racebin
            env["VERIF_WORKDIR"] = workdir
            code = subprocess.run([binp, pid, tier] + rest, cwd=VERIF, env=env).returncode
        else:
            die("unknown property id " + pid)
    finally:
        shutil.rmtree(workdir, ignore_errors=True)
    if code not in (0, 1):
        print("HARNESS-ERROR: check binary exited with %d" % code, file=sys.stderr)
        code = 2
    sys.exit(code)


if __name__ == "__main__":
    main()
