#!/bin/bash
# usage: tools/try_mutant.sh <patch.diff> <tier> <ID> [<ID>...]
# Applies the patch to a scratch worktree of /repo (never to /repo itself), runs the listed
# checks against it through VERIF_REPO, prints one line per check, removes the worktree.
set -u
patch=$(readlink -f "$1"); tier=$2; shift 2
wt=$(mktemp -d /tmp/trymut-XXXXXX)
git -C /repo worktree add -q --detach "$wt" HEAD || exit 2
if ! git -C "$wt" apply "$patch"; then echo "PATCH DOES NOT APPLY"; git -C /repo worktree remove --force "$wt"; exit 2; fi
for id in "$@"; do
  start=$(date +%s)
  out=$(cd /verif && VERIF_REPO="$wt" VERIF_EVIDENCE_DIR=/verif/.build/mut-evidence timeout 900 ./check "$id" "$tier" 2>&1)
  rc=$?
  keys=$(echo "$out" | grep -o "key=[^ ]*" | sort -u | tr '\n' ' ')
  echo "$id rc=$rc $(( $(date +%s) - start ))s $keys"
  if [ $rc -eq 2 ]; then echo "$out" | tail -5; fi
done
git -C /repo worktree remove --force "$wt"
