#!/usr/bin/env python3
"""Re-runs the checks against every confirmed seeded change (after the checks were strengthened)
and updates seeded/<id>/meta.json. usage: rerun_seeded.py [--only C01-m1,C02-m2] [--all-checks] [-j N]

For every seed: scratch worktree of /repo + patch, then `./check <ID> quick` through VERIF_REPO for
the seed's own property and every check that was run against it before. Evidence of these runs
goes to .build/mut-evidence, never to /verif/evidence.
"""
import json, glob, os, re, subprocess, sys, tempfile, time
from concurrent.futures import ThreadPoolExecutor

VERIF = "/verif"


def sh(cmd, cwd=None, timeout=3000, env=None):
    e = dict(os.environ)
    if env:
        e.update(env)
    p = subprocess.run(cmd, shell=True, cwd=cwd, capture_output=True, text=True, timeout=timeout, env=e)
    return p.returncode, p.stdout + p.stderr


def one(metaf):
    m = json.load(open(metaf))
    d = os.path.dirname(metaf)
    wt = tempfile.mkdtemp(prefix="reseed-", dir="/tmp")
    os.rmdir(wt)
    rc, out = sh("git -C /repo worktree add -q --detach %s HEAD" % wt)
    try:
        rc, out = sh("git apply %s" % os.path.join(d, "patch.diff"), cwd=wt)
        if rc != 0:
            return m["seed"], "patch no longer applies"
        ids = [m["property"]] + [c for c in (m.get("checks") or {}) if c != m["property"]]
        results = {}
        for cid in ids:
            t0 = time.time()
            rc, out = sh("./check %s quick" % cid, cwd=VERIF, env={"VERIF_REPO": wt, "VERIF_EVIDENCE_DIR": os.path.join(VERIF, ".build", "mut-evidence")})
            keys = sorted(set(re.findall(r"key=(\S+)", out)))
            results[cid] = {"exit": rc, "tier": "quick", "wall_s": round(time.time() - t0), "violation_keys": keys}
            if rc == 2:
                results[cid]["harness_error"] = out[-1200:]
        m["checks"] = results
        m["detected_by"] = [c for c, r in results.items() if r["exit"] == 1]
        m["rerun_at_verif_commit"] = sh("git -C /verif rev-parse --short HEAD")[1].strip()
        json.dump(m, open(metaf, "w"), indent=1)
        return m["seed"], "detected by " + (", ".join(m["detected_by"]) or "NONE")
    finally:
        sh("git -C /repo worktree remove --force %s" % wt)


def main():
    only = None
    jobs = 3
    for i, a in enumerate(sys.argv):
        if a == "--only":
            only = set(sys.argv[i + 1].split(","))
        if a == "-j":
            jobs = int(sys.argv[i + 1])
    metas = sorted(glob.glob(os.path.join(VERIF, "seeded", "*", "meta.json")))
    if only:
        metas = [f for f in metas if os.path.basename(os.path.dirname(f)) in only]
    with ThreadPoolExecutor(max_workers=jobs) as ex:
        for seed, res in ex.map(one, metas):
            print(seed, res, flush=True)


if __name__ == "__main__":
    main()
