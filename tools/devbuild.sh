#!/bin/bash
# dev helper: instrument + build ccheck into .build/dev (kept)
set -e
cd /verif
export GOFLAGS=-mod=mod GOPROXY=off GOSUMDB=off GOTOOLCHAIN=local; export CGO_ENABLED=${CGO_ENABLED:-0}
mkdir -p .build/dev .build/tools
go1.26 build -o .build/tools/instrument ./tools/instrument
.build/tools/instrument -repo ${VERIF_REPO:-/repo} -verif /verif -out .build/dev -mode sched -overlay .build/dev/overlay.json
go1.26 build $1 -tags verif,verifsched -overlay .build/dev/overlay.json -o .build/dev/ccheck$1 ./cmd/ccheck
