#!/usr/bin/env python3
"""Generates /verif/MANIFEST.json from the table below (kept in one place so that it stays valid)."""
import json, os

VERIF = os.path.dirname(os.path.dirname(os.path.abspath(__file__)))

SCHED_NOTE = ("Trusted base: the overlay source rewriter (tools/instrument) and the shim packages' fidelity to Go's "
              "sync/atomic/channel/select semantics; schedule points at synchronisation operations are sufficient only for "
              "race-free code (race freedom itself is what C08 checks with the race-detector build); bounds as stated in the evidence file "
              "(client threads, ops per thread, preemption bound, alphabets).")
SEQ_NOTE = ("Trusted base: the reference model in the check, the white-box export files (read-only), Go's memory safety for "
            "turning faults into panics; bounds (depth, alphabets, page sizes) as stated in the evidence file.")

# id -> (engine, category, technique, text, design_ref, note)
CHECKS = {
    "C01": ("sched", "model_checking", "stateless model checking of the implementation: preemption-bounded DFS under a controlled scheduler",
            "Every schedule (within the preemption bound) of small multi-threaded scenarios on the REAL cache is executed and each Get is checked for provenance; includes engineered primary-hash collisions and string/[]byte keys; plus an explicit-state search over single-client histories on colliding keys with TTLs, clock, sweeps and every applier lag, probing every key in every state.", "§4 C01", SCHED_NOTE),
    "C02": ("sched", "model_checking", "stateless model checking of the implementation: preemption-bounded DFS under a controlled scheduler",
            "Every schedule within the bound of reader vs overwrite/Del/Clear/eviction/expiry scenarios on the real cache (incl. hash collisions); plus an explicit-state search over histories with every applier lag in which every key is read in every state; oracle: no Get starting after OnExit(v) returns v.", "§4 C02", SCHED_NOTE),
    "C03": ("sched", "model_checking", "explicit-state BFS over operation histories with every applier lag on the real cache (sequential driver: each event runs one thread exclusively; canonical white-box state key)",
            "Cost accounting invariants are checked in every reachable state of all bounded histories over adversarial cost alphabets (0 via Config.Cost, 1, 2, MaxCost, MaxCost+1), every rotation of the sampling map order; a specification with entries of accounted cost exactly 0; resident-but-unaccounted and accounted-but-absent keys are judged at drained states.", "§4 C03", SCHED_NOTE),
    "C04": ("sched", "model_checking", "stateless model checking of the implementation: preemption-bounded DFS under a controlled scheduler (racy pairs) + explicit-state search over histories with every applier lag",
            "Exactly-once OnExit accounting checked on every explored execution ending in Close; in the history search additionally the state invariant 'accepted and not yet released == still held' in every reachable state.", "§4 C04", SCHED_NOTE),
    "C05": ("sched", "model_checking", "explicit-state BFS over operation histories with every applier lag on the real cache (sequential driver: each event runs one thread exclusively; canonical white-box state key) + preemption-bounded DFS with a second thread",
            "Every single-client history of Set/SetWithTTL/Del/Wait/Get to the depth bound with every applier lag and write-buffer sizes 1/2/8; the Del-wins oracle is evaluated on every transition.", "§4 C05", SCHED_NOTE),
    "C06": ("sched", "model_checking", "explicit-state BFS over operation histories with every applier lag on the real cache (sequential driver: each event runs one thread exclusively; canonical white-box state key); oracle = reference map + FIFO of pending writes",
            "Every single-client history to the depth bound with every applier lag; every Get/GetTTL result and the whole map/accounting state must equal the reference map driven by a FIFO of what the client calls put into the write buffer (items no call accounts for are foreign to the reference).", "§4 C06", SCHED_NOTE),
    "C07": ("sched", "model_checking", "explicit-state BFS over operation histories with every applier lag on the real cache (sequential driver: each event runs one thread exclusively; canonical white-box state key) under a virtual clock + preemption-bounded DFS",
            "Expiry instants are exact under the virtual clock; every history over TTL values incl. negative, every observation moment; where everything fits the map must also equal the reference map of C06 (an entry leaves only by Del, overwrite or its own elapsed TTL).", "§4 C07", SCHED_NOTE),
    "C08": ("sched", "model_checking", "stateless model checking of the implementation: preemption-bounded DFS under a controlled scheduler, run twice - normal build (panic/deadlock/livelock oracle) and -race build with scheduler hand-offs invisible to the race detector",
            "Every unordered pair of the 12 API operation kinds, on conflicting keys with resident and pending entries: every schedule within the bound is executed; the race detector judges every explored schedule of the race build.", "§4 C08", SCHED_NOTE + " The Go race detector (ThreadSanitizer happens-before) is trusted."),
    "C09": ("sched", "model_checking", "exhaustive enumeration of (population, costs, frequencies, incoming item, sampling-map order) configurations, each built and decided on the real cache under the sequential driver",
            "Every configuration up to 4 (thorough 5) residents, and populations of 6 and 7 residents (larger than the eviction sample), is built through the public API; the deciding applier step is judged against the TinyLFU / sampled-LFU discipline using white-box estimates read immediately before it and the candidate sample reconstructed from the logged map ranges, for every permutation / rotation of the sampling map order.", "§4 C09", SCHED_NOTE),
    "C10": ("seq", "model_checking", "explicit-state BFS over operation histories on the real z.Tree (exact page-bytes state key) against a map reference model",
            "Every operation sequence over adversarial key alphabets up to the depth bound, from every reachable state, at the smallest page sizes (splits after 4 keys) and up; long fill/delete histories at larger page sizes; 120 (thorough 400) shuffled start states; when an observation is seen to change the tree, every key becomes the last read before and the first read after every operation.", "§4 C10", SEQ_NOTE),
    "C11": ("seq", "model_checking", "explicit-state BFS over operation histories on the real z.Buffer against a byte-slice reference model",
            "All operation histories up to the depth bound from every reachable state, for every buffer configuration, plus exhaustive sort families around the 1024-slice chunking and Reset / refill histories past 64 KiB on every buffer kind.", "§4 C11", SEQ_NOTE),
    "C12": ("sched", "model_checking", "stateless model checking of the implementation: DFS over all schedules (preemption bound 8 quick / unbounded thorough) with every atomic operation on the packed index and the mutex as schedule points; normal + race-detector builds; plus all sequential histories to a depth bound",
            "Disjointness, stability, exact sizes, alignment/zeroing and Copy equality are checked on every explored schedule of 2-4 allocating threads with sizes straddling chunk boundaries.", "§4 C12", SCHED_NOTE),
    "C13": ("sched", "model_checking", "explicit-state BFS over operation histories with every applier lag on the real cache (sequential driver: each event runs one thread exclusively; canonical white-box state key) + preemption-bounded DFS of two writers",
            "At every quiescent state of every bounded history: accounted keys == stored keys, IterValues == unexpired entries (with stop semantics), empty => full capacity.", "§4 C13", SCHED_NOTE),
    "C14": ("sched", "model_checking", "preemption-bounded DFS of sweep vs client re-writes (sweep's lock acquisitions are schedule points) + explicit-state BFS over operation histories with every applier lag on the real cache (sequential driver: each event runs one thread exclusively; canonical white-box state key) for applier stalls",
            "Safety and exactly-once of expiry processing on every explored schedule; bounded liveness on every bounded history. The defects it found (F4, F5, F6, F8) are repaired by fix: commits and recorded as fixed entries.", "§4 C14", SCHED_NOTE),
    "C15": ("sched", "model_checking", "explicit-state BFS over histories of two client threads with every applier lag on the real cache (sequential driver), Close / Clear as ordinary repeatable events, probes after each",
            "Every combination of resident entries, buffered new items / overwrites / tombstones, pending Wait markers (a second client blocked in Wait) and TTL entries precedes the Close/Clear; inertness / freshness is checked by probes (new write, TTL overwrite of a plain entry, expiry of a TTL entry by the following sweeps, metrics as on a new cache) and white-box state, thread termination from the scheduler's thread table.", "§4 C15", SCHED_NOTE),
    "C16": ("seq", "model_checking", "explicit-state BFS over histories with a Reopen event enabled in every state, on real file-backed trees; differential oracle before/after reopen",
            "Every clean-close point of every bounded history (including after DeleteBelow recycled pages) is closed, reopened and compared; the search continues from the reopened tree under the C10 oracle, and a reopened tree must take recycled pages before it moves the allocation frontier.", "§4 C16", SEQ_NOTE),
    "C17": ("sched", "model_checking", "explicit-state BFS over operation histories with every applier lag on the real cache (sequential driver: each event runs one thread exclusively; canonical white-box state key) + preemption-bounded DFS",
            "Metric conservation laws at every drained state of every bounded history with Metrics on; one DFS family makes every striped counter operation a schedule point. One open known finding (GetsKept counts Gets issued before the last Clear).", "§4 C17", SCHED_NOTE),
    "C18": ("seq", "model_checking", "explicit-state search to fixpoint over the real cmSketch / tinyLFU (counters saturate, so the reachable space is finite) + complete byte-space enumeration of the counter row",
            "All reachable sketch states for small tables (events: Increment, Push batches, forced aging reset, clear), every counter byte value, every table size formula input up to 1025 and around powers of two up to 2^62; after an aging reset every estimate must equal what the halved counters say.", "§4 C18", SEQ_NOTE),
    "C19": ("seq", "model_checking", "explicit-state BFS over Add/AddIfNotHas/Clear/JSON-round-trip sequences on the real Bloom filter against a set reference model",
            "All event sequences to depth 5 (7 thorough) over 88 parameterisations (entries from 1 to 5000, 1-7 locations, rates from 0.0001 to 0.99) and 16 extreme hashes; no assumption on the bitset layout.", "§4 C19", SEQ_NOTE),
    "C20": ("seq", "exploration", "exhaustive input enumeration (every length x first-match position x tail-memory pattern)",
            "The kernel only compares keys with k, so {<k, >=k} patterns are a complete abstraction of inputs; all of them up to length 512 (1024 thorough) are run against the reference, including every pattern of the memory past the slice; a second sweep places the slice at each of the 8 word offsets within a 64-byte line, with capacity equal to and larger than its length.", "§4 C20", SEQ_NOTE),
}

PENDING = {}


def main():
    all_ids = [json.loads(l)["id"] for l in open(os.path.join(VERIF, "properties.jsonl"))]
    checks = []
    for pid in all_ids:
        if pid not in CHECKS:
            continue
        engine, cat, tech, text, ref, note = CHECKS[pid]
        checks.append({
            "property_id": pid,
            "quick_cmd": "./check %s quick" % pid,
            "thorough_cmd": "./check %s thorough" % pid,
            "evidence_file": "/verif/evidence/%s.json" % pid,
            "replay_cmd_template": "./check %s quick --replay {path}" % pid,
            "engine": engine,
            "level_claimed": {"category": cat, "text": text, "design_ref": ref},
            "level_note": note,
            "technique": tech,
        })
    na = [{"property_id": p, "reason": PENDING.get(p, "check not built yet in this round (work in progress; see DESIGN.md §4 for the planned exhaustive check)")}
          for p in all_ids if p not in CHECKS]
    m = {
        "version": 1,
        "setup_cmd": "./setup.sh",
        "hooks": {
            "guard": "verif",
            "enable": "no hook lines in /repo: tools/instrument rewrites the current sources into a go build -overlay (sync/atomic/time/log imports -> verif/shim/*, channel ops/select/go/map-range -> vsched calls) and adds the //go:build verif files of /verif/export; harness built with -tags verif,verifsched",
            "baseline_off_cmd": "cd /repo && GOFLAGS=-mod=mod go test -json -vet=off -count=1 -timeout 25m ./...",
            "source_commits": [],
            "add_only": True,
        },
        "engines": [
            {"name": "sched", "path": "shim/vsched + explore + cmd/ccheck", "serves_properties": [p for p in all_ids if p in CHECKS and CHECKS[p][0] == "sched"],
             "kind_free_text": "controlled cooperative scheduler over the real code (overlay-instrumented), stateless preemption-bounded DFS, sequential driver with explicit-state search, race-detector build with invisible hand-offs"},
            {"name": "seq", "path": "cmd/zcheck", "serves_properties": [p for p in all_ids if p in CHECKS and CHECKS[p][0] == "seq"],
             "kind_free_text": "explicit-state BFS / exhaustive input enumeration over the real sequential structures with reference models"},
        ],
        "checks": checks,
        "notes": "All checks rebuild from /repo's current working tree on every run (tools/runcheck.py). Known findings: /verif/known_findings.json.",
        "not_applicable": na,
    }
    json.dump(m, open(os.path.join(VERIF, "MANIFEST.json"), "w"), indent=1)
    print("MANIFEST.json: %d checks, %d not_applicable" % (len(checks), len(na)))


if __name__ == "__main__":
    main()
