#!/usr/bin/env python3
"""Confirm a seeded change produced by an independent sub-agent and record it under /verif/seeded/.

usage: validate_mutant.py <agent-out-dir>/<mN> <seed-id> <property> [--checks C01,C02] [--tier quick]

Steps (all in a scratch worktree of /repo under /tmp, removed afterwards):
  1. demo passes on the unchanged tree                (3 runs)
  2. patch applies; tree builds
  3. demo fails with the patch                        (3 runs, all must fail)
  4. the repository's own suite passes with the patch (the BASELINE command, go test ./...)
  5. the listed checks are run against the patched tree (VERIF_REPO), results recorded
Writes /verif/seeded/<seed-id>/{patch.diff,demo_test.go,meta.json}.
"""
import json, os, re, shutil, subprocess, sys, tempfile, time

VERIF = "/verif"


def sh(cmd, cwd=None, timeout=1800, env=None):
    e = dict(os.environ)
    if env:
        e.update(env)
    p = subprocess.run(cmd, shell=True, cwd=cwd, capture_output=True, text=True, timeout=timeout, env=e)
    return p.returncode, p.stdout + p.stderr


def main():
    src, seed, prop = sys.argv[1], sys.argv[2], sys.argv[3]
    checks = [prop]
    tier = "quick"
    for i, a in enumerate(sys.argv):
        if a == "--checks":
            checks = sys.argv[i + 1].split(",")
        if a == "--tier":
            tier = sys.argv[i + 1]
    patch = os.path.join(src, "patch.diff")
    demo = os.path.join(src, "demo_test.go")
    readme = os.path.join(src, "README.md")
    first = open(demo).readline()
    m = re.search(r"dir:\s*(\S+)", first)
    pkgdir = m.group(1) if m else "."
    wt = tempfile.mkdtemp(prefix="valmut-", dir="/tmp")
    os.rmdir(wt)
    meta = {"seed": seed, "property": prop, "source": "independent sub-agent given only the property text and a scratch worktree",
            "what": open(readme).read()[:3000] if os.path.exists(readme) else "", "ran": []}
    ok = True
    try:
        rc, out = sh("git -C /repo worktree add -q --detach %s HEAD" % wt)
        if rc != 0:
            print(out)
            sys.exit(2)
        demodst = os.path.join(wt, pkgdir, "zz_demo_test.go")
        shutil.copy(demo, demodst)
        pkg = "./" + pkgdir if pkgdir != "." else "."
        testnames = "|".join(re.findall(r"func (Test\w+)\(", open(demo).read()))
        democmd = "go test -mod=mod -vet=off -count=1 -run '%s' %s" % (testnames, pkg)
        # 1. demo passes without the change
        passes = 0
        for _ in range(3):
            rc, out = sh(democmd, cwd=wt)
            passes += rc == 0
        meta["ran"].append({"cmd": democmd + "   (unchanged tree, 3 runs)", "passes": passes})
        if passes != 3:
            ok = False
            meta["rejected"] = "demo does not pass reliably on the unchanged tree: " + out[-800:]
        # 2. apply
        rc, out = sh("git apply %s" % os.path.abspath(patch), cwd=wt)
        if rc != 0:
            ok = False
            meta["rejected"] = "patch does not apply: " + out[-500:]
        rc, out = sh("go build ./...", cwd=wt)
        if rc != 0:
            ok = False
            meta["rejected"] = "does not build: " + out[-500:]
        # 3. demo fails with the change
        if ok:
            fails = 0
            for _ in range(3):
                rc, out = sh(democmd, cwd=wt)
                fails += rc != 0
            meta["ran"].append({"cmd": democmd + "   (with the change, 3 runs)", "fails": fails})
            if fails != 3:
                ok = False
                meta["rejected"] = "demo does not fail reliably with the change"
        # 4. suite passes with the change (demo removed)
        if ok:
            os.remove(demodst)
            t0 = time.time()
            rc, out = sh("go test -mod=mod -vet=off -count=1 -timeout 25m ./...", cwd=wt, timeout=2400)
            if rc != 0:
                # timing-based tests: one retry
                rc, out = sh("go test -mod=mod -vet=off -count=1 -timeout 25m ./...", cwd=wt, timeout=2400)
            meta["ran"].append({"cmd": "go test -mod=mod -vet=off -count=1 ./...   (with the change)", "exit": rc, "wall_s": round(time.time() - t0)})
            if rc != 0:
                ok = False
                meta["rejected"] = "the repository's own tests fail with the change: " + out[-1500:]
        # 5. our checks
        results = {}
        if ok:
            for cid in checks:
                t0 = time.time()
                rc, out = sh("./check %s %s" % (cid, tier), cwd=VERIF, timeout=2400,
                             env={"VERIF_REPO": wt, "VERIF_EVIDENCE_DIR": os.path.join(VERIF, ".build", "mut-evidence")})
                keys = sorted(set(re.findall(r"key=(\S+)", out)))
                results[cid] = {"exit": rc, "tier": tier, "wall_s": round(time.time() - t0), "violation_keys": keys}
                if rc == 2:
                    results[cid]["harness_error"] = out[-1500:]
            meta["checks"] = results
            meta["detected_by"] = [c for c, r in results.items() if r["exit"] == 1]
        meta["confirmed"] = ok
    finally:
        sh("git -C /repo worktree remove --force %s" % wt)
    if ok:
        dst = os.path.join(VERIF, "seeded", seed)
        os.makedirs(dst, exist_ok=True)
        shutil.copy(patch, os.path.join(dst, "patch.diff"))
        shutil.copy(demo, os.path.join(dst, "demo_test.go"))
        json.dump(meta, open(os.path.join(dst, "meta.json"), "w"), indent=1)
    print(json.dumps({k: meta.get(k) for k in ("seed", "confirmed", "rejected", "detected_by", "checks")}, indent=1)[:3000])


if __name__ == "__main__":
    main()
