#!/bin/bash
# usage: tools/try_neutral.sh <dir-with-pN/patch.diff> <label> <ID>...
# Runs the quick tier of the listed checks against every behaviour-preserving patch in the
# directory (scratch worktree, VERIF_REPO); any exit code other than 0 is a false alarm (1) or a
# "cannot decide" (2) and is printed with the tail of the output.
dir=$1; label=$2; shift 2
mkdir -p /verif/.build/neutral
for p in "$dir"/[pq]*/patch.diff; do
  n=$(basename $(dirname "$p"))
  wt=$(mktemp -d /tmp/neutral-XXXXXX)
  git -C /repo worktree add -q --detach "$wt" HEAD || exit 2
  if ! git -C "$wt" apply "$p"; then echo "$label/$n PATCH DOES NOT APPLY"; git -C /repo worktree remove --force "$wt"; continue; fi
  for id in "$@"; do
    start=$(date +%s)
    out=$(cd /verif && VERIF_REPO="$wt" VERIF_EVIDENCE_DIR=/verif/.build/mut-evidence timeout 1500 ./check "$id" quick 2>&1)
    rc=$?
    echo "$label/$n $id rc=$rc $(( $(date +%s) - start ))s $(echo "$out" | grep -o 'key=[^ ]*' | sort -u | tr '\n' ' ')"
    if [ $rc -ne 0 ]; then echo "$out" | tail -12 > /verif/.build/neutral/$label-$n-$id.out; fi
  done
  git -C /repo worktree remove --force "$wt"
done
