module verif

go 1.24.0

require github.com/dgraph-io/ristretto/v2 v2.0.0

replace github.com/dgraph-io/ristretto/v2 => /repo
