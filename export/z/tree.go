//go:build verif

package z

import (
	"reflect"
	"unsafe"
)

// White-box access to z.Tree for the C10 / C16 checks (added through go build -overlay; never part
// of a normal build). Reads private state, copies it, and writes a previously copied state back
// into a tree of the same geometry ("exact clone"); no tree logic is duplicated here.

// VerifTreeMeta is everything a Tree holds besides the page bytes and the Buffer object.
type VerifTreeMeta struct {
	NextPage uint64
	FreePage uint64
	Stats    TreeStats // the private t.stats (only the "calculated" members are ever non-zero)
	DataLen  int       // len(t.data): newNode branches on it (growth of the backing buffer)
	BufLen   int       // len(t.buffer.buf): in-memory capacity / mapped file size
	// Extra holds the raw bytes of every field of Tree this file does not know by name (a tree that
	// gained private state), so that it takes part in the state key; empty on the known layout.
	Extra string
	// Page0 holds the bytes of page 0 (which the tree does not use: all zero, then recorded as "")
	// when a tree keeps something there (a header, say): snapshot, restore and state key carry it.
	Page0 string
	// whole is a shallow copy of the Tree struct (buffer and data cleared): restore and clone copy
	// it back, which carries unknown plain-data fields along.
	whole Tree
}

var verifKnownTreeFields = map[string]bool{"buffer": true, "data": true, "nextPage": true, "freePage": true, "stats": true}

type verifExtraField struct {
	off, size uintptr
}

// verifExtraFields: offsets of the unknown fields, and whether all of them are plain data (no
// pointers, maps, slices, strings, channels, funcs, interfaces anywhere inside), i.e. whether a
// shallow struct copy is an exact copy of them.
var verifExtraFields, verifExtraNames, verifExtraPlain = func() (fs []verifExtraField, names []string, plain bool) {
	plain = true
	var isPlain func(tp reflect.Type) bool
	isPlain = func(tp reflect.Type) bool {
		switch tp.Kind() {
		case reflect.Bool, reflect.Int, reflect.Int8, reflect.Int16, reflect.Int32, reflect.Int64,
			reflect.Uint, reflect.Uint8, reflect.Uint16, reflect.Uint32, reflect.Uint64, reflect.Uintptr,
			reflect.Float32, reflect.Float64, reflect.Complex64, reflect.Complex128:
			return true
		case reflect.Array:
			return isPlain(tp.Elem())
		case reflect.Struct:
			for i := 0; i < tp.NumField(); i++ {
				if !isPlain(tp.Field(i).Type) {
					return false
				}
			}
			return true
		}
		return false
	}
	tp := reflect.TypeOf(Tree{})
	for i := 0; i < tp.NumField(); i++ {
		f := tp.Field(i)
		if verifKnownTreeFields[f.Name] {
			continue
		}
		names = append(names, f.Name)
		fs = append(fs, verifExtraField{f.Offset, f.Type.Size()})
		plain = plain && isPlain(f.Type)
	}
	return fs, names, plain
}()

// VerifTreeExtraFields names the fields of Tree beyond the known five and says whether they are all
// plain data (then snapshots / restores / clones copy them exactly as opaque bytes).
func VerifTreeExtraFields() (names []string, plain bool) { return verifExtraNames, verifExtraPlain }

func VerifTreeMetaOf(t *Tree) VerifTreeMeta {
	m := VerifTreeMeta{NextPage: t.nextPage, FreePage: t.freePage, Stats: t.stats,
		DataLen: len(t.data), BufLen: len(t.buffer.buf)}
	if len(t.data) >= pageSize {
		for _, x := range t.data[:pageSize] {
			if x != 0 {
				m.Page0 = string(t.data[:pageSize])
				break
			}
		}
	}
	if len(verifExtraFields) > 0 {
		m.whole = *t
		m.whole.buffer, m.whole.data = nil, nil
		var b []byte
		for _, f := range verifExtraFields {
			b = append(b, unsafe.Slice((*byte)(unsafe.Add(unsafe.Pointer(t), f.off)), f.size)...)
		}
		m.Extra = string(b)
	}
	return m
}

// VerifTreeFields lists the fields of Tree so the harness can notice that the struct gained
// state which VerifTreeRestore does not know about.
func VerifTreeFields() []string {
	tp := reflect.TypeOf(Tree{})
	var out []string
	for i := 0; i < tp.NumField(); i++ {
		out = append(out, tp.Field(i).Name)
	}
	return out
}

// VerifTreeUsed aliases the bytes of pages 1..nextPage-1 (clamped to the data slice).
func VerifTreeUsed(t *Tree) []byte {
	end := int(t.nextPage) * pageSize
	if end > len(t.data) {
		end = len(t.data)
	}
	if end < pageSize {
		end = pageSize
	}
	return t.data[pageSize:end]
}

// VerifTreeRestore writes a state previously read with VerifTreeMetaOf / VerifTreeUsed back into t.
// It refuses (returns false) when the geometry of t (data length, buffer length) differs from the
// one recorded in m: the caller then has to rebuild the state by replaying its history.
// Every byte from the end of the restored pages up to zeroUpTo (an offset into t.data chosen by the
// caller: the highest offset the tree may have dirtied since it was last all-zero) is cleared,
// because the tree relies on untouched pages being zero.
func VerifTreeRestore(t *Tree, m VerifTreeMeta, used []byte, zeroUpTo int) bool {
	if len(t.data) != m.DataLen || len(t.buffer.buf) != m.BufLen || pageSize+len(used) > len(t.data) {
		return false
	}
	if m.Page0 != "" {
		copy(t.data[:pageSize], m.Page0)
	} else {
		Memclr(t.data[:pageSize])
	}
	n := copy(t.data[pageSize:], used)
	lo := pageSize + n
	if zeroUpTo > len(t.data) {
		zeroUpTo = len(t.data)
	}
	if zeroUpTo > lo {
		Memclr(t.data[lo:zeroUpTo])
	}
	if len(verifExtraFields) > 0 {
		b, d := t.buffer, t.data
		*t = m.whole
		t.buffer, t.data = b, d
	}
	t.nextPage, t.freePage, t.stats = m.NextPage, m.FreePage, m.Stats
	return true
}

// VerifTreeZeroBeyond reports whether page 0 and every byte of t.data at or after page nextPage is
// zero (what a fresh tree looks like past its frontier). Scans the whole buffer: use sparingly.
func VerifTreeZeroBeyond(t *Tree) bool {
	chk := func(b []byte) bool {
		i := 0
		for ; i < len(b) && i%8 != 0; i++ {
			if b[i] != 0 {
				return false
			}
		}
		w := BytesToUint64Slice(b[i : i+(len(b)-i)/8*8])
		for _, x := range w {
			if x != 0 {
				return false
			}
		}
		for j := i + len(w)*8; j < len(b); j++ {
			if b[j] != 0 {
				return false
			}
		}
		return true
	}
	end := int(t.nextPage) * pageSize
	if end > len(t.data) {
		end = len(t.data)
	}
	if pageSize > len(t.data) {
		return chk(t.data)
	}
	return chk(t.data[:pageSize]) && chk(t.data[end:])
}

// VerifTreeWalk calls fn for every node reachable from the root (the tree's own Iterate order):
// page id, leaf flag and the node's first numKeys <key, value> pairs as a flat slice aliasing the
// page (k0, v0, k1, v1, ...).
func VerifTreeWalk(t *Tree, fn func(pageID uint64, leaf bool, kv []uint64)) {
	t.Iterate(func(n node) {
		N := n.numKeys()
		if N > maxKeys {
			N = maxKeys
		}
		fn(n.pageID(), n.isLeaf(), n[:2*N])
	})
}

// VerifTreeBuildTight builds an independent in-memory Tree holding a recorded state (as read with
// VerifTreeMetaOf / VerifTreeUsed) on a NEW calloc-backed Buffer that contains exactly pages
// 0..nextPage-1 plus slackPages zeroed spare pages and has no spare capacity behind them. The
// (slackPages+1)-th allocation of a new page therefore makes Buffer.Grow reallocate (the memory
// moves) in the middle of whatever tree operation performs it. Pure state surgery: private fields
// are set, bytes are copied, no tree logic. Returns nil if the recorded bytes are not exactly
// pages 1..nextPage-1.
func VerifTreeBuildTight(m VerifTreeMeta, used []byte, slackPages int) *Tree {
	if m.NextPage < 1 || len(used) != (int(m.NextPage)-1)*pageSize || slackPages < 0 {
		return nil
	}
	const tag = "verif-tight"
	sz := 8 + pageSize + len(used) + slackPages*pageSize
	b := &Buffer{buf: Calloc(sz, tag), bufType: UseCalloc, curSz: sz, offset: uint64(sz), padding: 8, tag: tag}
	t := &Tree{}
	if len(verifExtraFields) > 0 {
		*t = m.whole
	}
	t.buffer, t.nextPage, t.freePage, t.stats = b, m.NextPage, m.FreePage, m.Stats
	t.data = b.Bytes()
	copy(t.data[:pageSize], m.Page0)
	copy(t.data[pageSize:], used)
	return t
}

// VerifTreeBufAddr identifies the current backing array (to observe that a Grow moved the memory).
func VerifTreeBufAddr(t *Tree) uintptr {
	if len(t.buffer.buf) == 0 {
		return 0
	}
	return reflect.ValueOf(t.buffer.buf).Pointer()
}
