//go:build verif

package z

import (
	"encoding/binary"
	"math"
	"reflect"
	"sort"
	"unsafe"
)

// Content fingerprints of private state the harness does not know by name (see export/root/reflect.go).

// verifFP appends a canonical fingerprint of everything reachable from v: plain data by value,
// pointers / slices / arrays / structs / maps (entries sorted) by content. Channels, funcs and
// unsafe pointers are skipped, interfaces too unless followIface; a pointer met twice is
// written as a back reference. Used for state keys only: too fine is safe, too coarse is not.
func verifFP(dst []byte, v reflect.Value, followIface bool, seen map[unsafe.Pointer]int) []byte {
	if !v.IsValid() {
		return append(dst, 0xff)
	}
	switch v.Kind() {
	case reflect.Bool:
		if v.Bool() {
			return append(dst, 1)
		}
		return append(dst, 0)
	case reflect.Int, reflect.Int8, reflect.Int16, reflect.Int32, reflect.Int64:
		return binary.LittleEndian.AppendUint64(dst, uint64(v.Int()))
	case reflect.Uint, reflect.Uint8, reflect.Uint16, reflect.Uint32, reflect.Uint64, reflect.Uintptr:
		return binary.LittleEndian.AppendUint64(dst, v.Uint())
	case reflect.Float32, reflect.Float64:
		return binary.LittleEndian.AppendUint64(dst, math.Float64bits(v.Float()))
	case reflect.String:
		dst = binary.LittleEndian.AppendUint32(dst, uint32(v.Len()))
		return append(dst, v.String()...)
	case reflect.Pointer:
		if v.IsNil() {
			return append(dst, 0xfe)
		}
		p := v.UnsafePointer()
		if id, ok := seen[p]; ok {
			return binary.LittleEndian.AppendUint32(append(dst, 0xfd), uint32(id))
		}
		seen[p] = len(seen)
		return verifFP(append(dst, 0xfc), v.Elem(), followIface, seen)
	case reflect.Interface:
		if v.IsNil() || !followIface {
			return append(dst, 0xfb)
		}
		return verifFP(append(dst, 0xfa), v.Elem(), followIface, seen)
	case reflect.Slice, reflect.Array:
		if v.Kind() == reflect.Slice {
			dst = binary.LittleEndian.AppendUint32(dst, uint32(v.Len()))
		}
		if k := v.Type().Elem().Kind(); k == reflect.Uint8 && v.Len() > 0 && (v.Kind() == reflect.Slice || v.CanAddr()) {
			return append(dst, unsafe.Slice((*byte)(v.Index(0).Addr().UnsafePointer()), v.Len())...)
		}
		for i := 0; i < v.Len(); i++ {
			dst = verifFP(dst, v.Index(i), followIface, seen)
		}
		return dst
	case reflect.Struct:
		tp := v.Type()
		if pk := tp.PkgPath(); pk == "sync" || pk == "time" || pk == "verif/shim/vsync" || pk == "verif/shim/vtime" {
			return append(dst, 0xf9) // locks, pools, tickers: scheduler state, covered elsewhere
		}
		for i := 0; i < v.NumField(); i++ {
			dst = verifFP(dst, v.Field(i), followIface, seen)
		}
		return dst
	case reflect.Map:
		dst = binary.LittleEndian.AppendUint32(dst, uint32(v.Len()))
		type kv struct{ k, v []byte }
		var ents []kv
		it := v.MapRange()
		for it.Next() {
			ents = append(ents, kv{verifFP(nil, it.Key(), followIface, seen), nil})
			ents[len(ents)-1].v = verifFP(nil, it.Value(), followIface, seen)
		}
		sort.Slice(ents, func(i, j int) bool { return string(ents[i].k) < string(ents[j].k) })
		for _, e := range ents {
			dst = append(append(dst, e.k...), e.v...)
		}
		return dst
	}
	return append(dst, 0xf8) // nil chan, func, unsafe pointer, complex
}

// verifUnknownFP fingerprints every field of the struct v whose name is not listed.
func verifUnknownFP(dst []byte, v reflect.Value, seen map[unsafe.Pointer]int, known ...string) []byte {
	for v.IsValid() && (v.Kind() == reflect.Pointer || v.Kind() == reflect.Interface) {
		if v.IsNil() {
			return dst
		}
		v = v.Elem()
	}
	if !v.IsValid() || v.Kind() != reflect.Struct {
		return dst
	}
	tp := v.Type()
next:
	for i := 0; i < tp.NumField(); i++ {
		for _, k := range known {
			if tp.Field(i).Name == k {
				continue next
			}
		}
		dst = append(dst, tp.Field(i).Name...)
		dst = verifFP(append(dst, '='), v.Field(i), false, seen)
	}
	return dst
}


// VerifBufferExtraFP fingerprints the fields of Buffer the harness does not know by name (a buffer
// that gained a cached length, a free list, a hint ...): part of C11's state key. Empty on the known layout.
func VerifBufferExtraFP(b *Buffer) []byte {
	return verifUnknownFP(nil, reflect.ValueOf(b), map[unsafe.Pointer]int{}, "padding", "offset", "buf", "bufType", "curSz", "maxSz",
		"mmapFile", "autoMmapAfter", "autoMmapDir", "persistent", "tag")
}

// VerifAllocatorExtraFP: the same for Allocator (C12's sequential histories).
func VerifAllocatorExtraFP(a *Allocator) []byte {
	return verifUnknownFP(nil, reflect.ValueOf(a), map[unsafe.Pointer]int{}, "Mutex", "compIdx", "buffers", "Ref", "Tag")
}
