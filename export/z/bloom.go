//go:build verif

package z

// White-box additions for C19: exact deep copies of a live filter (every private field plus
// the bitset), so that the explicit-state search can branch from a state without replaying
// its history. No logic of the filter is duplicated.

// VerifBloomClone returns a deep copy of b.
func VerifBloomClone(b *Bloom) *Bloom {
	c := *b
	c.bitset = append([]uint64(nil), b.bitset...)
	return &c
}

// VerifBloomCopyInto makes dst a deep copy of src, reusing dst's bitset storage when possible.
func VerifBloomCopyInto(dst, src *Bloom) {
	bs := append(dst.bitset[:0], src.bitset...)
	*dst = *src
	dst.bitset = bs
}
