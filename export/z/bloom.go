//go:build verif

package z

import (
	"reflect"
	"unsafe"
)

// White-box additions for C19: exact deep copies of a live filter (every private field plus
// the bitset), so that the explicit-state search can branch from a state without replaying
// its history. No logic of the filter is duplicated.

// VerifBloomClone returns a deep copy of b.
func VerifBloomClone(b *Bloom) *Bloom {
	c := *b
	c.bitset = append([]uint64(nil), b.bitset...)
	return &c
}

// VerifBloomCopyInto makes dst a deep copy of src, reusing dst's bitset storage when possible.
func VerifBloomCopyInto(dst, src *Bloom) {
	bs := append(dst.bitset[:0], src.bitset...)
	*dst = *src
	dst.bitset = bs
}

// Unknown fields of Bloom (a filter that gained private state): their raw bytes take part in the
// state keys of C18 / C19 and are restored along with the known state when they are plain data.
var verifBloomExtraFields, verifBloomExtraNames, verifBloomExtraPlain = verifUnknownFields(reflect.TypeOf(Bloom{}),
	"bitset", "ElemNum", "sizeExp", "size", "setLocs", "shift")

type verifField struct{ off, size uintptr }

func verifIsPlain(tp reflect.Type) bool {
	switch tp.Kind() {
	case reflect.Bool, reflect.Int, reflect.Int8, reflect.Int16, reflect.Int32, reflect.Int64,
		reflect.Uint, reflect.Uint8, reflect.Uint16, reflect.Uint32, reflect.Uint64, reflect.Uintptr,
		reflect.Float32, reflect.Float64, reflect.Complex64, reflect.Complex128:
		return true
	case reflect.Array:
		return verifIsPlain(tp.Elem())
	case reflect.Struct:
		for i := 0; i < tp.NumField(); i++ {
			if !verifIsPlain(tp.Field(i).Type) {
				return false
			}
		}
		return true
	}
	return false
}

func verifUnknownFields(tp reflect.Type, known ...string) (fs []verifField, names []string, plain bool) {
	plain = true
	for i := 0; i < tp.NumField(); i++ {
		f := tp.Field(i)
		isKnown := false
		for _, k := range known {
			isKnown = isKnown || k == f.Name
		}
		if isKnown {
			continue
		}
		names = append(names, tp.Name()+"."+f.Name)
		fs = append(fs, verifField{f.Offset, f.Type.Size()})
		plain = plain && verifIsPlain(f.Type)
	}
	return
}

// VerifBloomExtraInfo names the unknown fields of Bloom and says whether all are plain data.
func VerifBloomExtraInfo() ([]string, bool) { return verifBloomExtraNames, verifBloomExtraPlain }

// VerifBloomExtra appends the raw bytes of the unknown fields of b to dst.
func VerifBloomExtra(dst []byte, b *Bloom) []byte {
	for _, f := range verifBloomExtraFields {
		dst = append(dst, unsafe.Slice((*byte)(unsafe.Add(unsafe.Pointer(b), f.off)), f.size)...)
	}
	return dst
}

// VerifBloomSetExtra writes bytes read by VerifBloomExtra back; returns the rest of src.
func VerifBloomSetExtra(b *Bloom, src []byte) []byte {
	for _, f := range verifBloomExtraFields {
		copy(unsafe.Slice((*byte)(unsafe.Add(unsafe.Pointer(b), f.off)), f.size), src[:f.size])
		src = src[f.size:]
	}
	return src
}
