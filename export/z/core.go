//go:build verif

package z

// White-box access for the verification harness (added through go build -overlay; never part
// of a normal build). Reads private state and sets package tuning variables only.

// VerifSetPageSize sets the B+ tree page size (as the repo's own tests poke pageSize/maxKeys).
func VerifSetPageSize(n int) (restore func()) {
	op, om, ot := pageSize, maxKeys, oneThird
	pageSize = n
	maxKeys = (pageSize / 16) - 1
	oneThird = int(float64(maxKeys) / 3)
	return func() { pageSize, maxKeys, oneThird = op, om, ot }
}

func VerifPageSize() int { return pageSize }
func VerifMaxKeys() int  { return maxKeys }

// VerifTreeState returns nextPage, freePage and the bytes of pages 1..nextPage-1.
func VerifTreeState(t *Tree) (nextPage, freePage uint64, used []byte) {
	end := int(t.nextPage) * pageSize
	if end > len(t.data) {
		end = len(t.data)
	}
	return t.nextPage, t.freePage, t.data[pageSize:end]
}

func VerifTreeDataLen(t *Tree) int { return len(t.data) }

// VerifBloom exposes the filter parameters and bitset.
func VerifBloom(b *Bloom) (bitset []uint64, sizeExp, size, setLocs, shift uint64) {
	return b.bitset, b.sizeExp, b.size, b.setLocs, b.shift
}

// VerifBuffer exposes buffer mode and cursors.
func VerifBuffer(b *Buffer) (bufType BufferType, curSz int, offset uint64, padding uint64, bufLen int) {
	return b.bufType, b.curSz, b.offset, b.padding, len(b.buf)
}
