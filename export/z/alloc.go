//go:build verif

package z

// VerifAllocator exposes the chunk table and the packed index of an Allocator.
func VerifAllocator(a *Allocator) (chunkLens []int, bufIdx, posIdx int) {
	for _, b := range a.buffers {
		chunkLens = append(chunkLens, len(b))
	}
	bufIdx, posIdx = parse(a.compIdx)
	return
}
