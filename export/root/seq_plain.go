//go:build verif && !verifsched

package ristretto

import "reflect"

func verifPoolItemsOf(v reflect.Value) []any { return nil }

func verifChanItems(p uintptr) []any { return nil }
