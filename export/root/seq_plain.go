//go:build verif && !verifsched

package ristretto

import "sync"

func verifPoolItems(p *sync.Pool) []any { return nil }
