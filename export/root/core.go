//go:build verif

package ristretto

// White-box access for the verification harness (added through go build -overlay; never part
// of a normal build). Everything here reads private state or sets the package-level tuning
// variables the repository's own tests also poke; no logic of the cache is duplicated.

import (
	"sort"
	"time"

	"github.com/dgraph-io/ristretto/v2/z"
)

func verifBloomBits(a *tinyLFU) []uint64 {
	bits, _, _, _, _ := z.VerifBloom(a.door)
	return bits
}

// VerifSetBufSize sets the capacity used for the write buffer of caches created afterwards.
func VerifSetBufSize(n int) (restore func()) {
	old := setBufSize
	setBufSize = n
	return func() { setBufSize = old }
}

// VerifSetBucketDuration sets the TTL bucket length in seconds.
func VerifSetBucketDuration(secs int64) (restore func()) {
	old := bucketDurationSecs
	bucketDurationSecs = secs
	return func() { bucketDurationSecs = old }
}

func VerifBucketDuration() int64 { return bucketDurationSecs }

const VerifItemSize = itemSize

type VerifEntry[V any] struct {
	Key, Conflict uint64
	Value         V
	Expiration    time.Time
}

// VerifStore returns every entry of the shard maps, sorted by key. No locks are taken: the
// caller guarantees that no other thread is running.
func VerifStore[K Key, V any](c *Cache[K, V]) []VerifEntry[V] {
	sm := c.storedItems.(*shardedMap[V])
	var out []VerifEntry[V]
	for _, sh := range sm.shards {
		for _, it := range sh.data {
			out = append(out, VerifEntry[V]{it.key, it.conflict, it.value, it.expiration})
		}
	}
	sort.Slice(out, func(i, j int) bool { return out[i].Key < out[j].Key })
	return out
}

type VerifCost struct {
	Key  uint64
	Cost int64
}

// VerifPolicy returns the accounting state of the eviction policy.
func VerifPolicy[K Key, V any](c *Cache[K, V]) (costs []VerifCost, used, maxCost int64) {
	e := c.cachePolicy.evict
	for k, v := range e.keyCosts {
		costs = append(costs, VerifCost{k, v})
	}
	sort.Slice(costs, func(i, j int) bool { return costs[i].Key < costs[j].Key })
	return costs, e.used, verifMaxCost(c)
}

type VerifBucketEntry struct {
	Bucket        int64
	Key, Conflict uint64
}

// VerifExpiry returns the expiry buckets and the number of the last bucket swept.
func VerifExpiry[K Key, V any](c *Cache[K, V]) (entries []VerifBucketEntry, lastCleaned int64) {
	em := c.storedItems.(*shardedMap[V]).expiryMap
	for b, m := range em.buckets {
		for k, cf := range m {
			entries = append(entries, VerifBucketEntry{b, k, cf})
		}
	}
	sort.Slice(entries, func(i, j int) bool {
		if entries[i].Bucket != entries[j].Bucket {
			return entries[i].Bucket < entries[j].Bucket
		}
		return entries[i].Key < entries[j].Key
	})
	return entries, em.lastCleanedBucketNum
}

func VerifStorageBucket(t time.Time) int64 { return storageBucket(t) }
func VerifCleanupBucket(t time.Time) int64 { return cleanupBucket(t) }

// VerifBuffers returns the fill of the write buffer and of the policy's batch channel.
func VerifBuffers[K Key, V any](c *Cache[K, V]) (setBufLen, setBufCap, itemsChLen int) {
	return len(c.setBuf), cap(c.setBuf), len(c.cachePolicy.itemsCh)
}


// VerifEstimate is the TinyLFU estimate the admission policy would use for key right now.
func VerifEstimate[K Key, V any](c *Cache[K, V], key uint64) int64 {
	return c.cachePolicy.admit.Estimate(key)
}

// VerifAdmit returns the raw admission state: sketch rows, seeds, doorkeeper bitset, counters.
func VerifAdmit[K Key, V any](c *Cache[K, V]) (rows [][]byte, seeds []uint64, door []uint64, incrs, resetAt int64) {
	a := c.cachePolicy.admit
	for i := range a.freq.rows {
		rows = append(rows, []byte(a.freq.rows[i]))
		seeds = append(seeds, a.freq.seed[i])
	}
	return rows, seeds, verifBloomBits(a), a.incrs, a.resetAt
}

func VerifKeyToHash[K Key, V any](c *Cache[K, V], k K) (uint64, uint64) { return c.keyToHash(k) }

// ----- sketch / TinyLFU (C18) -------------------------------------------------------------------

type VerifSketch struct{ s *cmSketch }

func VerifNewSketch(numCounters int64) VerifSketch { return VerifSketch{newCmSketch(numCounters)} }
func (v VerifSketch) SetSeeds(seeds [4]uint64)       { v.s.seed = seeds }
func (v VerifSketch) Seeds() [4]uint64               { return v.s.seed }
func (v VerifSketch) Mask() uint64                   { return v.s.mask }
func (v VerifSketch) Increment(h uint64)             { v.s.Increment(h) }
func (v VerifSketch) Estimate(h uint64) int64        { return v.s.Estimate(h) }
func (v VerifSketch) Reset()                         { v.s.Reset() }
func (v VerifSketch) Clear()                         { v.s.Clear() }
func (v VerifSketch) Rows() [][]byte {
	var out [][]byte
	for i := range v.s.rows {
		out = append(out, []byte(v.s.rows[i]))
	}
	return out
}

// Row operations on a bare counter row.
func VerifRowIncrement(row []byte, n uint64) { cmRow(row).increment(n) }
func VerifRowGet(row []byte, n uint64) byte  { return cmRow(row).get(n) }
func VerifRowReset(row []byte)               { cmRow(row).reset() }
func VerifRowClear(row []byte)               { cmRow(row).clear() }
func VerifNewRow(numCounters int64) []byte   { return make([]byte, numCounters/2) }
func VerifNext2Power(x int64) int64          { return next2Power(x) }

type VerifTinyLFU struct{ p *tinyLFU }

func VerifNewTinyLFU(numCounters int64) VerifTinyLFU { return VerifTinyLFU{newTinyLFU(numCounters)} }
func (v VerifTinyLFU) SetSeeds(seeds [4]uint64)        { v.p.freq.seed = seeds }
func (v VerifTinyLFU) Increment(h uint64)              { v.p.Increment(h) }
func (v VerifTinyLFU) Push(hs []uint64)                { v.p.Push(hs) }
func (v VerifTinyLFU) Estimate(h uint64) int64         { return v.p.Estimate(h) }
func (v VerifTinyLFU) Reset()                          { v.p.reset() }
func (v VerifTinyLFU) Clear()                          { v.p.clear() }
func (v VerifTinyLFU) Incrs() (incrs, resetAt int64)   { return v.p.incrs, v.p.resetAt }
func (v VerifTinyLFU) DoorHas(h uint64) bool           { return v.p.door.Has(h) }
func (v VerifTinyLFU) DoorBits() []uint64              { return verifBloomBits(v.p) }
func (v VerifTinyLFU) Rows() [][]byte {
	var out [][]byte
	for i := range v.p.freq.rows {
		out = append(out, []byte(v.p.freq.rows[i]))
	}
	return out
}
func (v VerifTinyLFU) Mask() uint64 { return v.p.freq.mask }
