//go:build verif

package ristretto

import (
	"reflect"
	"unsafe"

	"github.com/dgraph-io/ristretto/v2/z"
)

// White-box additions for C18 (see core.go for the wrappers). Restores a previously OBSERVED
// state into a live tinyLFU so that the explicit-state search can continue from it without
// replaying the whole history; no logic of the sketch or the policy is duplicated.

// SetIncrs sets the number of increments recorded since the last reset.
func (v VerifTinyLFU) SetIncrs(n int64) { v.p.incrs = n }

// Seeds returns the sketch seeds of the TinyLFU's count-min sketch.
func (v VerifTinyLFU) Seeds() [4]uint64 { return v.p.freq.seed }

// RowsInto is Rows without allocating: dst[i] aliases row i of the live sketch.
func (v VerifTinyLFU) RowsInto(dst *[4][]byte) {
	for i := range v.p.freq.rows {
		dst[i] = []byte(v.p.freq.rows[i])
	}
}

// RowsInto is Rows without allocating: dst[i] aliases row i of the live sketch.
func (v VerifSketch) RowsInto(dst *[4][]byte) {
	for i := range v.s.rows {
		dst[i] = []byte(v.s.rows[i])
	}
}

// DoorElemNum / SetDoorElemNum: the doorkeeper's public element counter (restored together
// with its bitset so that a restored state is exactly an observed one).
func (v VerifTinyLFU) DoorElemNum() uint64     { return v.p.door.ElemNum }
func (v VerifTinyLFU) SetDoorElemNum(n uint64) { v.p.door.ElemNum = n }

// ---- private state the sketch / TinyLFU may have gained -----------------------------------------
// The C18 search continues from OBSERVED states written back into a live object. Fields this file
// does not know by name are carried along as opaque bytes (part of the snapshot and of the state
// key) when they are plain data; otherwise the search cannot restore states and says so.

type verifFld struct{ off, size uintptr }

func verifIsPlain(tp reflect.Type) bool {
	switch tp.Kind() {
	case reflect.Bool, reflect.Int, reflect.Int8, reflect.Int16, reflect.Int32, reflect.Int64,
		reflect.Uint, reflect.Uint8, reflect.Uint16, reflect.Uint32, reflect.Uint64, reflect.Uintptr,
		reflect.Float32, reflect.Float64, reflect.Complex64, reflect.Complex128:
		return true
	case reflect.Array:
		return verifIsPlain(tp.Elem())
	case reflect.Struct:
		for i := 0; i < tp.NumField(); i++ {
			if !verifIsPlain(tp.Field(i).Type) {
				return false
			}
		}
		return true
	}
	return false
}

func verifUnknownFields(tp reflect.Type, known ...string) (fs []verifFld, names []string, plain bool) {
	plain = true
	for i := 0; i < tp.NumField(); i++ {
		f := tp.Field(i)
		isKnown := false
		for _, k := range known {
			isKnown = isKnown || k == f.Name
		}
		if isKnown {
			continue
		}
		names = append(names, tp.Name()+"."+f.Name)
		fs = append(fs, verifFld{f.Offset, f.Type.Size()})
		plain = plain && verifIsPlain(f.Type)
	}
	return
}

var verifSketchExtraFields, verifSketchExtraNames, verifSketchExtraPlain = verifUnknownFields(reflect.TypeOf(cmSketch{}), "rows", "seed", "mask")
var verifTinyExtraFields, verifTinyExtraNames, verifTinyExtraPlain = verifUnknownFields(reflect.TypeOf(tinyLFU{}), "freq", "door", "incrs", "resetAt")

// VerifSketchExtraInfo names the unknown fields of cmSketch, tinyLFU and z.Bloom and says whether
// all of them are plain data.
func VerifSketchExtraInfo() (names []string, plain bool) {
	bn, bp := z.VerifBloomExtraInfo()
	names = append(append(append(names, verifSketchExtraNames...), verifTinyExtraNames...), bn...)
	return names, verifSketchExtraPlain && verifTinyExtraPlain && bp
}

func verifGetExtra(dst []byte, p unsafe.Pointer, fs []verifFld) []byte {
	for _, f := range fs {
		dst = append(dst, unsafe.Slice((*byte)(unsafe.Add(p, f.off)), f.size)...)
	}
	return dst
}

func verifSetExtra(p unsafe.Pointer, fs []verifFld, src []byte) []byte {
	for _, f := range fs {
		copy(unsafe.Slice((*byte)(unsafe.Add(p, f.off)), f.size), src[:f.size])
		src = src[f.size:]
	}
	return src
}

// Extra appends the raw bytes of the unknown fields to dst; SetExtra writes them back.
func (v VerifSketch) Extra(dst []byte) []byte {
	return verifGetExtra(dst, unsafe.Pointer(v.s), verifSketchExtraFields)
}
func (v VerifSketch) SetExtra(src []byte) {
	verifSetExtra(unsafe.Pointer(v.s), verifSketchExtraFields, src)
}
func (v VerifTinyLFU) Extra(dst []byte) []byte {
	dst = verifGetExtra(dst, unsafe.Pointer(v.p), verifTinyExtraFields)
	dst = verifGetExtra(dst, unsafe.Pointer(v.p.freq), verifSketchExtraFields)
	return z.VerifBloomExtra(dst, v.p.door)
}
func (v VerifTinyLFU) SetExtra(src []byte) {
	src = verifSetExtra(unsafe.Pointer(v.p), verifTinyExtraFields, src)
	src = verifSetExtra(unsafe.Pointer(v.p.freq), verifSketchExtraFields, src)
	z.VerifBloomSetExtra(v.p.door, src)
}
