//go:build verif

package ristretto

// White-box additions for C18 (see core.go for the wrappers). Restores a previously OBSERVED
// state into a live tinyLFU so that the explicit-state search can continue from it without
// replaying the whole history; no logic of the sketch or the policy is duplicated.

// SetIncrs sets the number of increments recorded since the last reset.
func (v VerifTinyLFU) SetIncrs(n int64) { v.p.incrs = n }

// Seeds returns the sketch seeds of the TinyLFU's count-min sketch.
func (v VerifTinyLFU) Seeds() [4]uint64 { return v.p.freq.seed }

// RowsInto is Rows without allocating: dst[i] aliases row i of the live sketch.
func (v VerifTinyLFU) RowsInto(dst *[4][]byte) {
	for i := range v.p.freq.rows {
		dst[i] = []byte(v.p.freq.rows[i])
	}
}

// RowsInto is Rows without allocating: dst[i] aliases row i of the live sketch.
func (v VerifSketch) RowsInto(dst *[4][]byte) {
	for i := range v.s.rows {
		dst[i] = []byte(v.s.rows[i])
	}
}

// DoorElemNum / SetDoorElemNum: the doorkeeper's public element counter (restored together
// with its bitset so that a restored state is exactly an observed one).
func (v VerifTinyLFU) DoorElemNum() uint64     { return v.p.door.ElemNum }
func (v VerifTinyLFU) SetDoorElemNum(n uint64) { v.p.door.ElemNum = n }
