//go:build verif

package ristretto

import (
	"encoding/binary"
	"math"
	"reflect"
	"sort"
	"unsafe"
)

// Reflection helpers of the white-box layer. Peripheral private state (the closed flag, the
// metric cells, the Get ring, the TinyLFU internals) is located BY NAME AT RUN TIME, so that a
// refactoring that renames or reshapes it does not stop the harness from building: the caller
// gets ok=false and falls back to something weaker but sound. Core state (store shards,
// accounting map, expiry buckets, write buffer) is referenced directly in core.go / seq.go.

// verifField returns field `name` of the struct v (pointers and interfaces are followed first).
func verifField(v reflect.Value, name string) (reflect.Value, bool) {
	for v.IsValid() && (v.Kind() == reflect.Pointer || v.Kind() == reflect.Interface) {
		if v.IsNil() {
			return reflect.Value{}, false
		}
		v = v.Elem()
	}
	if !v.IsValid() || v.Kind() != reflect.Struct {
		return reflect.Value{}, false
	}
	f := v.FieldByName(name)
	return f, f.IsValid()
}

// verifPath follows a chain of field names starting at the struct root points to.
func verifPath(root any, names ...string) (reflect.Value, bool) {
	v := reflect.ValueOf(root)
	for _, n := range names {
		var ok bool
		if v, ok = verifField(v, n); !ok {
			return reflect.Value{}, false
		}
	}
	return v, true
}

// verifSumUint64 adds up every uint64 reachable from v (pointers, slices, arrays, structs).
func verifSumUint64(v reflect.Value) (t uint64) {
	switch v.Kind() {
	case reflect.Uint64:
		return v.Uint()
	case reflect.Pointer, reflect.Interface:
		if !v.IsNil() {
			return verifSumUint64(v.Elem())
		}
	case reflect.Slice, reflect.Array:
		for i := 0; i < v.Len(); i++ {
			t += verifSumUint64(v.Index(i))
		}
	case reflect.Struct:
		for i := 0; i < v.NumField(); i++ {
			t += verifSumUint64(v.Field(i))
		}
	}
	return t
}

// verifFP appends a canonical fingerprint of everything reachable from v: plain data by value,
// pointers / slices / arrays / structs / maps (entries sorted) by content. Channels, funcs and
// unsafe pointers are skipped, interfaces too unless followIface; a pointer met twice is
// written as a back reference. Used for state keys only: too fine is safe, too coarse is not.
func verifFP(dst []byte, v reflect.Value, followIface bool, seen map[unsafe.Pointer]int) []byte {
	if !v.IsValid() {
		return append(dst, 0xff)
	}
	switch v.Kind() {
	case reflect.Bool:
		if v.Bool() {
			return append(dst, 1)
		}
		return append(dst, 0)
	case reflect.Int, reflect.Int8, reflect.Int16, reflect.Int32, reflect.Int64:
		return binary.LittleEndian.AppendUint64(dst, uint64(v.Int()))
	case reflect.Uint, reflect.Uint8, reflect.Uint16, reflect.Uint32, reflect.Uint64, reflect.Uintptr:
		return binary.LittleEndian.AppendUint64(dst, v.Uint())
	case reflect.Float32, reflect.Float64:
		return binary.LittleEndian.AppendUint64(dst, math.Float64bits(v.Float()))
	case reflect.String:
		dst = binary.LittleEndian.AppendUint32(dst, uint32(v.Len()))
		return append(dst, v.String()...)
	case reflect.Pointer:
		if v.IsNil() {
			return append(dst, 0xfe)
		}
		p := v.UnsafePointer()
		if id, ok := seen[p]; ok {
			return binary.LittleEndian.AppendUint32(append(dst, 0xfd), uint32(id))
		}
		seen[p] = len(seen)
		return verifFP(append(dst, 0xfc), v.Elem(), followIface, seen)
	case reflect.Interface:
		if v.IsNil() || !followIface {
			return append(dst, 0xfb)
		}
		return verifFP(append(dst, 0xfa), v.Elem(), followIface, seen)
	case reflect.Slice, reflect.Array:
		if v.Kind() == reflect.Slice {
			dst = binary.LittleEndian.AppendUint32(dst, uint32(v.Len()))
		}
		if k := v.Type().Elem().Kind(); k == reflect.Uint8 && v.Len() > 0 && (v.Kind() == reflect.Slice || v.CanAddr()) {
			return append(dst, unsafe.Slice((*byte)(v.Index(0).Addr().UnsafePointer()), v.Len())...)
		}
		for i := 0; i < v.Len(); i++ {
			dst = verifFP(dst, v.Index(i), followIface, seen)
		}
		return dst
	case reflect.Struct:
		tp := v.Type()
		if pk := tp.PkgPath(); pk == "sync" || pk == "time" || pk == "verif/shim/vsync" || pk == "verif/shim/vtime" {
			return append(dst, 0xf9) // locks, pools, tickers: scheduler state, covered elsewhere
		}
		for i := 0; i < v.NumField(); i++ {
			dst = verifFP(dst, v.Field(i), followIface, seen)
		}
		return dst
	case reflect.Map:
		dst = binary.LittleEndian.AppendUint32(dst, uint32(v.Len()))
		type kv struct{ k, v []byte }
		var ents []kv
		it := v.MapRange()
		for it.Next() {
			ents = append(ents, kv{verifFP(nil, it.Key(), followIface, seen), nil})
			ents[len(ents)-1].v = verifFP(nil, it.Value(), followIface, seen)
		}
		sort.Slice(ents, func(i, j int) bool { return string(ents[i].k) < string(ents[j].k) })
		for _, e := range ents {
			dst = append(append(dst, e.k...), e.v...)
		}
		return dst
	}
	if v.Kind() == reflect.Chan && !v.IsNil() {
		// a buffered channel is state too (a free list, a queue of deferred work): its queued values
		// as the channel shims shadow them (sequential driver only; empty otherwise)
		items := verifChanItems(v.Pointer())
		dst = binary.LittleEndian.AppendUint32(append(dst, 0xf7), uint32(len(items)))
		for _, it := range items {
			dst = verifFP(dst, reflect.ValueOf(it), followIface, seen)
		}
		return dst
	}
	return append(dst, 0xf8) // nil chan, func, unsafe pointer, complex
}

// verifUnknownFP fingerprints every field of the struct v whose name is not listed.
func verifUnknownFP(dst []byte, v reflect.Value, seen map[unsafe.Pointer]int, known ...string) []byte {
	for v.IsValid() && (v.Kind() == reflect.Pointer || v.Kind() == reflect.Interface) {
		if v.IsNil() {
			return dst
		}
		v = v.Elem()
	}
	if !v.IsValid() || v.Kind() != reflect.Struct {
		return dst
	}
	tp := v.Type()
next:
	for i := 0; i < tp.NumField(); i++ {
		for _, k := range known {
			if tp.Field(i).Name == k {
				continue next
			}
		}
		dst = append(dst, tp.Field(i).Name...)
		dst = verifFP(append(dst, '='), v.Field(i), false, seen)
	}
	return dst
}

// VerifExtrasFP fingerprints the private state the harness does not know by name: fields that
// Cache, the policy, the sampled LFU, the sharded map, its shards, the stored entries and the
// expiry index may have gained. Empty on the known layout. It is part of every state key, so a
// change that adds a flag, a counter or a cache of some value cannot make the search merge
// states with different futures.
func VerifExtrasFP[K Key, V any](c *Cache[K, V]) []byte {
	seen := map[unsafe.Pointer]int{}
	var b []byte
	b = verifUnknownFP(b, reflect.ValueOf(c), seen, "storedItems", "cachePolicy", "getBuf", "setBuf", "onEvict", "onReject", "onExit",
		"keyToHash", "stop", "done", "isClosed", "cost", "ignoreInternalCost", "cleanupTicker", "Metrics")
	b = verifUnknownFP(b, reflect.ValueOf(c.cachePolicy), seen, "Mutex", "admit", "evict", "itemsCh", "stop", "done", "metrics")
	b = verifUnknownFP(b, reflect.ValueOf(c.cachePolicy.evict), seen, "maxCost", "used", "metrics", "keyCosts")
	sm, ok := c.storedItems.(*shardedMap[V])
	if !ok {
		return b
	}
	b = verifUnknownFP(b, reflect.ValueOf(sm), seen, "shards", "expiryMap")
	b = verifUnknownFP(b, reflect.ValueOf(sm.expiryMap), seen, "RWMutex", "buckets", "lastCleanedBucketNum")
	for i, sh := range sm.shards {
		n := len(b)
		b = verifUnknownFP(b, reflect.ValueOf(sh), seen, "RWMutex", "data", "em", "shouldUpdate")
		keys := make([]uint64, 0, len(sh.data))
		for k := range sh.data {
			keys = append(keys, k)
		}
		sort.Slice(keys, func(i, j int) bool { return keys[i] < keys[j] })
		for _, k := range keys {
			it := sh.data[k]
			b = verifUnknownFP(b, reflect.ValueOf(&it), seen, "key", "conflict", "value", "expiration")
		}
		if len(b) > n {
			b = binary.LittleEndian.AppendUint32(b, uint32(i))
		}
	}
	return b
}

// VerifAdmitFP fingerprints the complete TinyLFU state (sketch rows, doorkeeper, counters and
// whatever else it holds) for the state key.
func VerifAdmitFP[K Key, V any](c *Cache[K, V]) []byte {
	v, ok := verifPath(c, "cachePolicy", "admit")
	if !ok {
		return []byte("?")
	}
	return verifFP(nil, v, false, map[unsafe.Pointer]int{})
}

// VerifRingFP fingerprints the pooled Get-ring stripes (Gets not yet handed to the policy).
func VerifRingFP[K Key, V any](c *Cache[K, V]) []string {
	v, ok := verifPath(c, "getBuf")
	if !ok {
		return []string{"?"}
	}
	var out []string
	for _, it := range verifPoolItemsOf(v) {
		out = append(out, string(verifFP(nil, reflect.ValueOf(it), false, map[unsafe.Pointer]int{})))
	}
	return out
}

// VerifIsClosed reads the cache's closed flag; known=false when the field cannot be found (the
// harness then derives "closed" from the history: a Close call has returned).
func VerifIsClosed[K Key, V any](c *Cache[K, V]) (closed, known bool) {
	f, ok := verifPath(c, "isClosed")
	if !ok {
		return false, false
	}
	for _, x := range verifFP(nil, f, false, map[unsafe.Pointer]int{}) {
		if x != 0 {
			return true, true
		}
	}
	return false, true
}

// VerifClosedFlag / VerifMaxCostCell: addresses of two atomic cells whose operations need not be
// schedule points in scenarios that never write them; nil when they cannot be found (every
// atomic operation is then a schedule point).
func VerifClosedFlag[K Key, V any](c *Cache[K, V]) unsafe.Pointer {
	if f, ok := verifPath(c, "isClosed"); ok && f.CanAddr() {
		return unsafe.Pointer(f.UnsafeAddr())
	}
	// renamed? the lifecycle word is the only atomic scalar the Cache struct itself holds
	v := reflect.ValueOf(c).Elem()
	var found []reflect.Value
	for i := 0; i < v.NumField(); i++ {
		if f := v.Field(i); f.Kind() == reflect.Struct && f.CanAddr() {
			if pk := f.Type().PkgPath(); pk == "verif/shim/vatomic" || pk == "sync/atomic" {
				found = append(found, f)
			}
		}
	}
	if len(found) == 1 {
		return unsafe.Pointer(found[0].UnsafeAddr())
	}
	return nil
}

// VerifMetricCellAddrs returns the address of every uint64 counter reachable from Metrics.all.
func VerifMetricCellAddrs(m *Metrics) (out []unsafe.Pointer) {
	if m == nil {
		return nil
	}
	all, ok := verifPath(m, "all")
	if !ok {
		return nil
	}
	var walk func(v reflect.Value)
	walk = func(v reflect.Value) {
		switch v.Kind() {
		case reflect.Uint64:
			if v.CanAddr() {
				out = append(out, unsafe.Pointer(v.UnsafeAddr()))
			}
		case reflect.Pointer, reflect.Interface:
			if !v.IsNil() {
				walk(v.Elem())
			}
		case reflect.Slice, reflect.Array:
			for i := 0; i < v.Len(); i++ {
				walk(v.Index(i))
			}
		case reflect.Struct:
			for i := 0; i < v.NumField(); i++ {
				walk(v.Field(i))
			}
		}
	}
	walk(all)
	return out
}

func VerifMaxCostCell[K Key, V any](c *Cache[K, V]) unsafe.Pointer {
	if f, ok := verifPath(c, "cachePolicy", "evict", "maxCost"); ok && f.CanAddr() {
		return unsafe.Pointer(f.UnsafeAddr())
	}
	return nil
}

// VerifMetricTotals returns the totals of every metric type, in declaration order: the sum of
// all uint64 cells reachable from Metrics.all[i], whatever their layout. nil when there are no
// metrics or the counters cannot be found.
func VerifMetricTotals(m *Metrics) []uint64 {
	if m == nil {
		return nil
	}
	all, ok := verifPath(m, "all")
	if !ok || (all.Kind() != reflect.Array && all.Kind() != reflect.Slice) {
		return nil
	}
	out := make([]uint64, 0, all.Len())
	for i := 0; i < all.Len(); i++ {
		out = append(out, verifSumUint64(all.Index(i)))
	}
	return out
}

// verifMaxCost reads the policy's capacity whether it is a plain int64 or an atomic wrapper.
func verifMaxCost[K Key, V any](c *Cache[K, V]) int64 {
	f, ok := verifPath(c, "cachePolicy", "evict", "maxCost")
	if !ok {
		return c.cachePolicy.MaxCost()
	}
	var first func(v reflect.Value) (int64, bool)
	first = func(v reflect.Value) (int64, bool) {
		switch v.Kind() {
		case reflect.Int64, reflect.Int:
			return v.Int(), true
		case reflect.Struct:
			for i := 0; i < v.NumField(); i++ {
				if x, ok := first(v.Field(i)); ok {
					return x, true
				}
			}
		}
		return 0, false
	}
	if x, ok := first(f); ok {
		return x
	}
	return c.cachePolicy.MaxCost()
}
