//go:build verif && verifsched

package ristretto

import (
	"reflect"

	"verif/shim/vsched"
	sync "verif/shim/vsync"
)

func verifChanItems(p uintptr) []any { return vsched.ShadowAt(p) }

// verifPoolItemsOf returns the items of the first sync.Pool found in the struct v (by value or
// behind a pointer): the ring buffer's stripe pool.
func verifPoolItemsOf(v reflect.Value) []any {
	for v.IsValid() && (v.Kind() == reflect.Pointer || v.Kind() == reflect.Interface) {
		if v.IsNil() {
			return nil
		}
		v = v.Elem()
	}
	if !v.IsValid() || v.Kind() != reflect.Struct {
		return nil
	}
	for i := 0; i < v.NumField(); i++ {
		f := v.Field(i)
		if f.Kind() == reflect.Pointer && !f.IsNil() && f.Type().Elem() == reflect.TypeOf(sync.Pool{}) {
			return (*sync.Pool)(f.UnsafePointer()).Items()
		}
		if f.Kind() == reflect.Struct && f.Type() == reflect.TypeOf(sync.Pool{}) && f.CanAddr() {
			return (*sync.Pool)(f.Addr().UnsafePointer()).Items()
		}
	}
	return nil
}
