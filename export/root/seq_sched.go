//go:build verif && verifsched

package ristretto

import sync "verif/shim/vsync"

func verifPoolItems(p *sync.Pool) []any { return p.Items() }
