//go:build verif

package ristretto

import (
	"time"
)

// White-box views needed by the sequential driver's canonical state.

type VerifItemInfo struct {
	Flag       int // 0 new, 1 delete, 2 update
	Key        uint64
	Conflict   uint64
	Value      any
	Cost       int64
	Expiration time.Time
	IsWait     bool
}

// VerifItem describes a buffered *Item[V] (as found in the write buffer's shadow queue).
func VerifItem[V any](x any) (VerifItemInfo, bool) {
	it, ok := x.(*Item[V])
	if !ok || it == nil {
		return VerifItemInfo{}, false
	}
	return VerifItemInfo{Flag: int(it.flag), Key: it.Key, Conflict: it.Conflict, Value: it.Value, Cost: it.Cost,
		Expiration: it.Expiration, IsWait: it.wait != nil}, true
}

// VerifChans returns the cache's channels (identity only: used to look up shadow queues).
func VerifChans[K Key, V any](c *Cache[K, V]) (setBuf chan *Item[V], itemsCh chan []uint64) {
	return c.setBuf, c.cachePolicy.itemsCh
}

func VerifMetricNames() []string {
	out := make([]string, 0, doNotUse)
	for i := 0; i < doNotUse; i++ {
		out = append(out, stringFor(metricType(i)))
	}
	return out
}

// VerifHas reports whether the shard map holds keyHash (no lock: caller is alone).
func VerifHas[K Key, V any](c *Cache[K, V], keyHash uint64) bool {
	sm := c.storedItems.(*shardedMap[V])
	_, ok := sm.shards[keyHash%numShards].data[keyHash]
	return ok
}

// VerifAccount returns the number of accounted keys, the used cost and the max cost.
func VerifAccount[K Key, V any](c *Cache[K, V]) (int, int64, int64) {
	e := c.cachePolicy.evict
	return len(e.keyCosts), e.used, verifMaxCost(c)
}
