// Package vsched is the controlled cooperative scheduler under which the real ristretto code
// is executed. Every synchronisation operation of the code under test (rewritten by
// tools/instrument to call the shims) is a *point*: the calling thread publishes what it is
// about to do and parks; a single controller decides, through a Chooser, which enabled
// transition happens next. At most one thread executes code under test at any time.
//
// All state shared between threads and the controller lives in fixed-size records and is
// touched only inside //go:norace functions, with hand-off by plain variables and
// runtime.Gosched() spinning under GOMAXPROCS(1): the hand-offs create no happens-before edge
// the Go race detector can see, so a -race build reports exactly the races of the code under
// test, on every explored schedule (DESIGN.md §2.6).
package vsched

import (
	"fmt"
	"runtime"
	"strings"
	"sync/atomic"
	"time"
	"unsafe"
)

func getg() uintptr

const (
	MaxThreads = 24
	MaxCases   = 8
	MaxEvents  = 8192
)

type OpKind uint8

const (
	OpNone OpKind = iota
	OpStart
	OpResume
	OpYield
	OpLock      // Mutex.Lock
	OpRLock     // RWMutex.RLock
	OpWLock     // RWMutex.Lock, announce (+acquire if no readers)
	OpWLockWait // RWMutex.Lock, wait for readers to drain
	OpAtomic
	OpChan // send / recv / select
	OpClose
	OpEnv    // environment event performed by a scenario thread (tick, clock advance)
	OpChoose // data choice with n alternatives
	OpJoin   // wait until the listed threads have finished
	OpWGWait
	OpPool
	OpOnce
	OpDrive // driver thread: run one other thread exclusively until it yields / blocks / finishes
	OpQuery // driver thread: ask for the enabled transitions of another thread
	OpSpin  // runtime.Gosched / time.Sleep inside a polling loop: enabled once another thread has made a step
)

var opNames = [...]string{"none", "start", "resume", "yield", "Lock", "RLock", "WLock", "WLockWait", "atomic", "chan", "close", "env", "choose", "join", "wgwait", "pool", "once", "drive", "query", "spin-wait"}

func (k OpKind) String() string { return opNames[k] }

const (
	stFree int32 = iota
	stStarting
	stRunning
	stParked
	stFinished
)

// LockState is the scheduler's model of a Mutex / RWMutex, embedded in the shim object.
type LockState struct {
	Held    int32 // Mutex: 1 if held
	Readers int32 // RWMutex
	Writer  int32 // RWMutex: tid+1 of the pending or holding writer
	Seq     int32 // per-execution object number (for traces)
	Epoch   int32
}

// WGState models a WaitGroup.
type WGState struct {
	N     int64
	Epoch int32
}

type caseReq struct {
	send bool
	ref  any     // the channel itself: keeps it alive so that its address is not reused within an execution
	ch   uintptr // runtime hchan pointer, 0 for a nil channel
	cap  int32
	len  int32
}

type request struct {
	kind       OpKind
	yield      bool
	lock       *LockState
	wg         *WGState
	obj        uintptr
	ncase      int
	hasDefault bool
	cases      [MaxCases]caseReq
	nchoose    int
	join       uint32 // bit mask of thread ids
	label      string // only for traces
	target     int    // OpDrive / OpQuery
	pick       int    // OpDrive: index among the target's enabled transitions for its first step
}

// Thread is one controlled goroutine.
type Thread struct {
	id       int
	g        uintptr
	state    int32
	grant    int32
	result   int
	rdv      bool
	hand     int8 // 0 plain, 1 unbuffered rendezvous, 2 direct hand-off on a buffered channel, 3 pull of a blocked sender
	daemon   bool
	panicked bool
	panicVal string
	name     string
	req      request
	steps    int
	// answers to OpQuery / OpDrive
	qn      int
	qtrans  [16]TransDesc
	dstatus DriveStatus
}

// TransDesc describes one enabled transition of a thread (answer to Query).
type TransDesc struct {
	Kind    OpKind
	Case    int
	Partner int
	Send    bool // OpChan: the case is a send
	ChanSeq int  // OpChan: per-execution number of the channel (creation/first-use order)
}

type DriveStatus int

const (
	DriveYielded DriveStatus = iota
	DriveBlocked
	DriveFinished
	DriveChoice // the thread reached a data choice (Choose / map order): Drive again with the pick
)

func (d DriveStatus) String() string {
	return [...]string{"yielded", "blocked", "finished", "choice"}[d]
}

// DriveChoices is the number of alternatives when Drive returned DriveChoice.
//
//go:norace
func DriveChoices() int {
	if t := cur(); t != nil {
		return t.qn
	}
	return 0
}

//go:norace
func setQN(t *Thread, n int) { t.qn = n }

// Query returns the transitions thread tid could take right now (empty: blocked or finished).
// Only for the sequential driver: the calling thread must be the only one not parked.
//
//go:norace
func Query(tid int) []TransDesc {
	t := cur()
	if t == nil {
		panic("vsched.Query outside the scheduler")
	}
	t.req.kind = OpQuery
	t.req.target = tid
	t.req.yield = false
	t.req.ncase = 0
	t.req.lock = nil
	t.park()
	out := make([]TransDesc, t.qn)
	copy(out, t.qtrans[:t.qn])
	return out
}

// Drive lets thread tid run exclusively: its first step takes its pick-th enabled transition,
// later steps its first one, until it parks at a voluntary yield point, blocks or finishes.
//
//go:norace
func Drive(tid, pick int) DriveStatus {
	t := cur()
	if t == nil {
		panic("vsched.Drive outside the scheduler")
	}
	t.req.kind = OpDrive
	t.req.target = tid
	t.req.pick = pick
	t.req.yield = false
	t.req.ncase = 0
	t.req.lock = nil
	t.park()
	return t.dstatus
}

//go:norace
func answerQuery(t *Thread, descs []TransDesc) {
	n := len(descs)
	if n > len(t.qtrans) {
		n = len(t.qtrans)
	}
	copy(t.qtrans[:n], descs[:n])
	t.qn = n
}

//go:norace
func answerDrive(t *Thread, st DriveStatus) { t.dstatus = st }

func (t *Thread) ID() int { return t.id }

var (
	threads  [MaxThreads]Thread
	nThreads int
	active   bool
	aborting bool
	frozen   int
	epoch    int32
	stepNo   int32
	curTid   int // thread currently executing code under test (last granted)

	events  [MaxEvents]Event
	nEvents int

	exemptAtomic map[uintptr]struct{}
	allAtomics   bool = true
	poolPoints   bool

	mapOrder func(n int) int // number of alternative orders offered for a map range of n keys
)

// Event is one entry of the observation log written by scenario code and callbacks.
type Event struct {
	Step int32
	Tid  int8
	Kind uint8
	A    int64
	B    int64
	C    int64
	T    int64 // virtual clock (ns since vtime.Base) when logged
}

var clockNs int64

var eventsOverflow bool

// EventsOverflow reports that the observation log of the last execution was truncated.
//
//go:norace
func EventsOverflow() bool { return eventsOverflow }

// NoteClock is called by vtime whenever the virtual clock changes.
//
//go:norace
func NoteClock(ns int64) { clockNs = ns }

//go:norace
func cur() *Thread {
	if !active {
		return nil
	}
	g := getg()
	for i := 0; i < nThreads; i++ {
		if threads[i].g == g {
			return &threads[i]
		}
	}
	return nil
}

// Cur returns the controlled thread of the calling goroutine, or nil (pass-through mode).
//
//go:norace
func Cur() *Thread { return cur() }

//go:norace
func Active() bool { return active }

//go:norace
func (t *Thread) park() int {
	t.state = stParked
	for t.grant == 0 {
		runtime.Gosched()
	}
	t.grant = 0
	if aborting {
		runtime.Goexit()
	}
	t.steps++
	return t.result
}

//go:norace
func (t *Thread) simple(kind OpKind, obj uintptr, yield bool) {
	t.req.kind = kind
	t.req.obj = obj
	t.req.yield = yield
	t.req.ncase = 0
	t.req.lock = nil
	t.park()
}

// Yield is a voluntary switch point (free for the preemption bound).
//
//go:norace
func Yield() {
	if t := cur(); t != nil {
		t.simple(OpYield, 0, true)
	}
}

// Gosched stands for runtime.Gosched() and time.Sleep() of the code under test: the body of a
// polling loop. Waiting must be visible to the explorer, or a loop such as
// `for len(ch) > 0 { runtime.Gosched() }` never ends under a cooperative scheduler. The thread
// parks and becomes enabled again only after some OTHER thread has made a step (fair
// scheduling of yielding threads); when nothing else is enabled the spinners are let through,
// and if that happens many times in a row the execution ends as a livelock.
//
//go:norace
func Gosched() {
	if t := cur(); t != nil {
		t.simple(OpSpin, 0, false)
	}
}

// EnvPoint is a point for an environment event executed by the calling scenario thread.
//
//go:norace
func EnvPoint(label string) {
	if t := cur(); t != nil {
		t.req.label = label
		t.simple(OpEnv, 0, false)
		t.req.label = ""
	}
}

// ClockPoint is called by the vtime shims before every read of the virtual clock. A clock read
// is a schedule point only in scenarios in which the clock can move while threads run
// (SetClockPoints): otherwise it commutes with everything. Without it, the code between a
// channel receive and the thread's next lock (run as a forced move right after the rendezvous)
// would always read the clock of the moment of the hand-off.
//
//go:norace
func ClockPoint() {
	if !clockPoints {
		return
	}
	if t := cur(); t != nil {
		t.req.label = "clock-read"
		t.simple(OpEnv, 0, false)
		t.req.label = ""
	}
}

// SetClockPoints: see ClockPoint. Called by the main scenario thread before other threads run.
func SetClockPoints(b bool) { clockPoints = b }

var clockPoints bool

// AtomicPoint is called by the vatomic shims before the real atomic operation.
//
//go:norace
func AtomicPoint(addr unsafe.Pointer) {
	t := cur()
	if t == nil {
		return
	}
	_, listed := exemptAtomic[uintptr(addr)]
	if listed == allAtomics {
		return // all-but-listed mode and listed, or only-listed mode and not listed
	}
	t.simple(OpAtomic, uintptr(addr), false)
}

// ExemptAtomics declares atomic cells whose operations are performed without a schedule point
// (striped metric counters: their adds commute). Must be called by the main scenario thread
// before any other thread touches them.
func ExemptAtomics(m map[uintptr]struct{}) { exemptAtomic, allAtomics = m, true }

// OnlyAtomics makes exactly the listed cells schedule points; every other atomic operation is
// performed without a point (used when metrics are on: 2816 striped counters whose adds commute).
func OnlyAtomics(m map[uintptr]struct{}) { exemptAtomic, allAtomics = m, false }

// Choose returns a value in [0,n) picked by the explorer (a free, non-preemptive choice).
//
//go:norace
func Choose(n int) int {
	t := cur()
	if t == nil || n <= 1 {
		return 0
	}
	t.req.kind = OpChoose
	t.req.nchoose = n
	t.req.yield = false
	t.req.lock = nil
	t.req.ncase = 0
	return t.park()
}

// Freeze / Unfreeze bracket regions (scenario set-up, epilogue, oracle probes) in which the
// explorer does not branch: the default choice is taken at every point.
//
//go:norace
func Freeze() { frozen++ }

//go:norace
func Unfreeze() { frozen-- }

// ----- locks -------------------------------------------------------------------------------

//go:norace
func (l *LockState) fresh() {
	if l.Epoch != epoch {
		*l = LockState{Epoch: epoch}
	}
}

//go:norace
func MutexLock(l *LockState) {
	t := cur()
	if t == nil {
		return
	}
	l.fresh()
	t.req.kind = OpLock
	t.req.lock = l
	t.req.yield = false
	t.req.ncase = 0
	t.park()
	l.Held = 1
	if logLocks {
		Log(EvLockGrant, int64(uintptr(unsafe.Pointer(l))), 0, 0)
	}
}

//go:norace
func MutexTryLock(l *LockState) (ok, controlled bool) {
	t := cur()
	if t == nil {
		return false, false
	}
	l.fresh()
	t.simple(OpAtomic, uintptr(unsafe.Pointer(l)), false)
	if l.Held != 0 {
		return false, true
	}
	l.Held = 1
	return true, true
}

//go:norace
func MutexUnlock(l *LockState) {
	if !active {
		return
	}
	l.Held = 0
}

//go:norace
func RWRLock(l *LockState) {
	t := cur()
	if t == nil {
		return
	}
	l.fresh()
	t.req.kind = OpRLock
	t.req.lock = l
	t.req.yield = false
	t.req.ncase = 0
	t.park()
	l.Readers++
	if logLocks {
		Log(EvLockGrant, int64(uintptr(unsafe.Pointer(l))), 1, 0)
	}
}

//go:norace
func RWRUnlock(l *LockState) {
	if !active {
		return
	}
	l.Readers--
}

//go:norace
func RWLock(l *LockState) {
	t := cur()
	if t == nil {
		return
	}
	l.fresh()
	t.req.kind = OpWLock
	t.req.lock = l
	t.req.yield = false
	t.req.ncase = 0
	t.park()
	l.Writer = int32(t.id) + 1
	if l.Readers > 0 {
		t.req.kind = OpWLockWait
		t.park()
	}
	if logLocks {
		Log(EvLockGrant, int64(uintptr(unsafe.Pointer(l))), 2, 0)
	}
}

//go:norace
func RWUnlock(l *LockState) {
	if !active {
		return
	}
	l.Writer = 0
}

// ----- wait group -----------------------------------------------------------------------------

//go:norace
func WGAdd(w *WGState, d int) {
	if !active {
		return
	}
	if w.Epoch != epoch {
		*w = WGState{Epoch: epoch}
	}
	w.N += int64(d)
}

//go:norace
func WGWait(w *WGState) {
	t := cur()
	if t == nil {
		return
	}
	if w.Epoch != epoch {
		*w = WGState{Epoch: epoch}
	}
	t.req.kind = OpWGWait
	t.req.wg = w
	t.req.yield = false
	t.req.ncase = 0
	t.req.lock = nil
	t.park()
}

// ----- threads --------------------------------------------------------------------------------

// Go starts fn as a new controlled daemon thread (used by the rewritten `go` statements of the
// code under test). Outside the scheduler it is a plain go statement.
func Go(fn func()) {
	if cur() == nil {
		go fn()
		return
	}
	spawn("", true, fn)
}

// Spawn starts a scenario (client) thread and returns its id.
func Spawn(name string, fn func()) int {
	if cur() == nil {
		panic("vsched.Spawn outside the scheduler")
	}
	return spawn(name, false, fn)
}

//go:norace
func allocThread(name string, daemon bool) *Thread {
	if nThreads >= MaxThreads {
		panic("vsched: too many threads")
	}
	t := &threads[nThreads]
	*t = Thread{id: nThreads, state: stStarting, daemon: daemon, name: name}
	nThreads++
	return t
}

func spawn(name string, daemon bool, fn func()) int {
	t := allocThread(name, daemon)
	go threadMain(t, fn)
	return t.id
}

//go:norace
func (t *Thread) finish(r any) {
	if r != nil {
		t.panicked = true
		t.panicVal = fmt.Sprint(r)
		buf := make([]byte, 4096)
		n := runtime.Stack(buf, false)
		t.panicVal += "\n" + trimStack(string(buf[:n]))
	}
	t.g = 0
	// a real release: makes the end of this thread visible to Join and to the next execution
	// (and to nothing that runs code under test concurrently)
	atomic.AddInt64(&finishedCounter, 1)
	t.state = stFinished
}

var finishedCounter int64

func trimStack(s string) string {
	lines := strings.Split(s, "\n")
	var out []string
	for _, l := range lines {
		if strings.Contains(l, "shim/vsched") || strings.Contains(l, "runtime/panic") || strings.Contains(l, "runtime.gopanic") || strings.Contains(l, "panic(") {
			continue
		}
		out = append(out, l)
		if len(out) > 16 {
			break
		}
	}
	return strings.Join(out, "\n")
}

//go:norace
func (t *Thread) begin() {
	t.g = getg()
	t.req.kind = OpStart
	t.req.yield = false
	t.req.ncase = 0
	t.req.lock = nil
}

func threadMain(t *Thread, fn func()) {
	defer func() {
		r := recover()
		t.finish(r)
	}()
	t.begin()
	t.park()
	fn()
}

// Join blocks the calling thread until the given threads have finished.
//
//go:norace
func Join(ids ...int) {
	t := cur()
	if t == nil {
		panic("vsched.Join outside the scheduler")
	}
	var m uint32
	for _, id := range ids {
		m |= 1 << uint(id)
	}
	t.req.kind = OpJoin
	t.req.join = m
	t.req.yield = true
	t.req.ncase = 0
	t.req.lock = nil
	t.park()
	atomic.LoadInt64(&finishedCounter) // acquire: a real program joins its threads with real synchronisation
}

// ThreadInfo describes a thread at the moment of the call (for oracles run by the main thread).
type ThreadInfo struct {
	ID       int
	Name     string
	Daemon   bool
	Finished bool
	Panicked bool
	PanicVal string
	Kind     OpKind // where it is parked
}

//go:norace
func Threads() []ThreadInfo {
	out := make([]ThreadInfo, 0, nThreads)
	for i := 0; i < nThreads; i++ {
		t := &threads[i]
		out = append(out, ThreadInfo{ID: i, Name: t.name, Daemon: t.daemon, Finished: t.state == stFinished, Panicked: t.panicked, PanicVal: t.panicVal, Kind: t.req.kind})
	}
	return out
}

// ----- observation log -----------------------------------------------------------------------

// Log appends an observation; usable from any thread and from callbacks.
//
//go:norace
func Log(kind uint8, a, b, c int64) {
	if nEvents >= MaxEvents {
		eventsOverflow = true // never judge an execution on a truncated log
		return
	}
	tid := int8(-1)
	if t := cur(); t != nil {
		tid = int8(t.id)
	}
	events[nEvents] = Event{Step: stepNo, Tid: tid, Kind: kind, A: a, B: b, C: c, T: clockNs}
	nEvents++
}

//go:norace
func Events() []Event {
	out := make([]Event, nEvents)
	copy(out, events[:nEvents])
	return out
}

//go:norace
func NumEvents() int { return nEvents }

//go:norace
func Step() int32 { return stepNo }

//go:norace
func CurTid() int {
	if t := cur(); t != nil {
		return t.id
	}
	return -1
}

// SetMapOrder installs the policy deciding how many alternative iteration orders the explorer
// is offered for a map range over n keys (nil: only the canonical sorted order).
func SetMapOrder(f func(n int) int) { mapOrder = f }

// InHand returns the value thread tid received through a direct hand-off on a buffered channel
// and has not finished processing (it has not returned to its idle loop since); only with
// SetShadow(true).
func InHand(tid int) any {
	if inHand == nil {
		return nil
	}
	return inHand[tid]
}

var inHand map[int]any

// SetDaemonYield decides whether the blocking channel operations of daemon threads (the idle
// loops of the applier and the policy goroutine) are voluntary switch points. The sequential
// driver needs it (a driven daemon stops there); the preemptive DFS leaves it off so that
// switching away from a daemon that could go on costs a preemption like anywhere else.
func SetDaemonYield(b bool) { daemonYield = b }

var daemonYield bool

// EvLockGrant is the event kind logged (when SetLogLocks is on) each time a thread is granted
// a lock: A = identity of the lock, B = 0 Mutex.Lock, 1 RLock, 2 RWMutex.Lock.
const EvLockGrant uint8 = 250

var logLocks bool

// SetLogLocks turns the logging of lock grants into the observation log on (used by oracles
// that must order a client's store update against the sweep's reads).
func SetLogLocks(b bool) { logLocks = b }

// SetPoolPoints makes sync.Pool.Get a schedule point.
func SetPoolPoints(b bool) { poolPoints = b }

//go:norace
func PoolPoint(addr unsafe.Pointer) {
	if !poolPoints {
		return
	}
	if t := cur(); t != nil {
		t.simple(OpPool, uintptr(addr), false)
	}
}

// ----- controller -------------------------------------------------------------------------------

// Trans is one enabled transition at a point.
type Trans struct {
	Tid     int
	Case    int // select case index / choose value
	Partner int // partner thread of a joint channel transition, -1 if none
	PCase   int
	Hand    int8 // 1 unbuffered rendezvous, 2 hand-off to a blocked receiver, 3 pull of a blocked sender
}

// Point describes one decision of the controller.
type Point struct {
	N        int  // number of enabled transitions
	NRunning int  // how many of them (the first ones) belong to the running thread
	Yield    bool // the running thread is at a voluntary switch point
	Frozen   bool // inside a Freeze region: explorers do not branch here
	Sig      uint64
	Chosen   int
}

// Chooser picks the transition at each point.
type Chooser interface {
	Choose(index int, p *Point) int
}

type Outcome int

const (
	Done Outcome = iota
	Deadlock
	Livelock
	Panicked
	ReplayDiverged
)

func (o Outcome) String() string {
	return [...]string{"done", "deadlock", "livelock", "panic", "replay-diverged"}[o]
}

// Result of one execution.
type Result struct {
	Outcome Outcome
	Points  []Point
	Detail  string
	Trace   []string // when Options.Trace
	Events  []Event
}

type Options struct {
	MaxSteps int
	Trace    bool
}

type chanModel struct {
	ref    any
	cap    int32
	qlen   int32
	closed bool
	seq    int
}

type controller struct {
	chans   map[uintptr]*chanModel
	objSeq  map[uintptr]int
	trans   []Trans
	points  []Point
	trace   []string
	opts    Options
	running int
	// threads that are BLOCKED in a channel operation (parked at an operation that could not
	// proceed): Go has queued them, in this order, on the channel's wait queues
	blocked  [MaxThreads]int64
	spinAt   [MaxThreads]int64 // OpSpin: tcount+1 when the thread was first seen parked there (0: not spinning)
	tcount   int64             // transitions executed in this execution
	spinIdle int               // consecutive steps in which only spinning threads could run
	spinFallback bool          // nothing else is enabled: spinning threads are let through
	blockSeq int64
	// active Drive request
	driving    bool
	driver     int
	driveFirst bool
}

var ctl controller

// ctlHand is the kind of joint channel transition being granted (set by the controller right
// before it grants the two partners).
var ctlHand int8

//go:norace
func resetGlobals() {
	for i := 0; i < nThreads; i++ {
		threads[i] = Thread{}
	}
	nThreads = 0
	aborting = false
	frozen = 0
	nEvents = 0
	eventsOverflow = false
	clockNs = 0
	stepNo = 0
	epoch++
	exemptAtomic = nil
	allAtomics = true
	shadowOn = false
	shadow = nil
	inHand = nil
	daemonYield = false
	logLocks = false
	clockPoints = false
	mapOrder = nil
	poolPoints = false
	active = true
}

//go:norace
func quiescent() bool {
	for i := 0; i < nThreads; i++ {
		s := threads[i].state
		if s == stRunning || s == stStarting {
			return false
		}
	}
	return true
}

//go:norace
func allFinished() bool {
	for i := 0; i < nThreads; i++ {
		if threads[i].state != stFinished {
			return false
		}
	}
	return true
}

// Stuck is set when a thread failed to reach a schedule point for stuckAfter: the process
// state is poisoned (that goroutine cannot be stopped) and the worker must exit after reporting.
var Stuck bool

func waitQuiescent() bool {
	spins := 0
	var start time.Time
	for !quiescent() {
		runtime.Gosched()
		spins++
		if spins&0xfffff == 0 {
			if start.IsZero() {
				start = time.Now()
			} else if time.Since(start) > stuckAfter && spins > 30_000_000 {
				buf := make([]byte, 1<<16)
				n := runtime.Stack(buf, true)
				stuckDetail = "a thread did not reach a schedule point for " + stuckAfter.String() + " (busy loop in the code under test, or an uncontrolled blocking operation)\n" + dumpThreads() + trimStack(string(buf[:n]))
				Stuck = true
				return false
			}
		}
	}
	return true
}

var stuckDetail string

var stuckAfter = 20 * time.Second

//go:norace
func dumpThreads() string {
	s := ""
	for i := 0; i < nThreads; i++ {
		t := &threads[i]
		s += fmt.Sprintf("T%d %s state=%d grant=%d kind=%v g=%x\n", i, t.name, t.state, t.grant, t.req.kind, t.g)
	}
	return s
}

//go:norace
func grantThread(t *Thread, result int, rdv bool) {
	ctl.blocked[t.id] = 0
	t.result = result
	t.rdv = rdv
	t.hand = ctlHand
	if !rdv {
		t.hand = 0
	}
	t.state = stRunning
	t.grant = 1
}

//go:norace
func snapshotReq(t *Thread, r *request) int32 {
	*r = t.req
	return t.state
}

//go:norace
func lockFree(l *LockState, kind OpKind) bool {
	switch kind {
	case OpLock:
		return l.Held == 0
	case OpRLock, OpWLock:
		return l.Writer == 0
	case OpWLockWait:
		return l.Readers == 0
	}
	return true
}

//go:norace
func wgZero(w *WGState) bool { return w.N <= 0 }

//go:norace
func threadFinished(i int) bool { return threads[i].state == stFinished }

//go:norace
func threadMeta(i int) (name string, daemon bool, st int32, panicked bool, pv string) {
	t := &threads[i]
	return t.name, t.daemon, t.state, t.panicked, t.panicVal
}

//go:norace
func setStep(n int32, tid int) { stepNo = n; curTid = tid }

//go:norace
func isFrozen() bool { return frozen > 0 }

//go:norace
func numThreads() int { return nThreads }

func (c *controller) chanOf(cr *caseReq) *chanModel {
	m, ok := c.chans[cr.ch]
	if !ok {
		m = &chanModel{ref: cr.ref, cap: cr.cap, qlen: cr.len, seq: len(c.chans) + 1}
		c.chans[cr.ch] = m
	}
	return m
}

// Run executes main as thread 0 under the controller, asking ch at every point.
func Run(main func(), ch Chooser, opts Options) *Result {
	if opts.MaxSteps == 0 {
		opts.MaxSteps = 20000
	}
	runtime.GOMAXPROCS(1)
	resetGlobals()
	c := &ctl
	c.chans = map[uintptr]*chanModel{}
	c.objSeq = map[uintptr]int{}
	c.points = c.points[:0]
	c.trace = nil
	c.opts = opts
	c.running = 0
	c.driving = false
	c.blocked = [MaxThreads]int64{}
	c.blockSeq = 0
	c.spinAt = [MaxThreads]int64{}
	c.tcount, c.spinIdle = 0, 0
	res := &Result{}

	t0 := allocThread("main", false)
	go threadMain(t0, main)

	var reqs [MaxThreads]request
	var states [MaxThreads]int32
	for step := 0; ; step++ {
		if !waitQuiescent() {
			res.Outcome = Livelock
			res.Detail = stuckDetail
			res.Points = append([]Point(nil), c.points...)
			res.Trace = c.trace
			res.Events = Events()
			return res // no tear-down possible: the caller must not start another execution
		}
		n := numThreads()
		// a panic in any thread ends the execution
		panicked := false
		for i := 0; i < n; i++ {
			if _, _, _, p, pv := threadMeta(i); p {
				panicked = true
				res.Outcome = Panicked
				name, _, _, _, _ := threadMeta(i)
				res.Detail = fmt.Sprintf("thread %d (%s) panicked: %s", i, name, pv)
				break
			}
		}
		if panicked {
			break
		}
		for i := 0; i < n; i++ {
			states[i] = snapshotReq(&threads[i], &reqs[i])
		}
		if states[0] == stFinished {
			res.Outcome = Done
			break
		}
		if step >= opts.MaxSteps {
			res.Outcome = Livelock
			res.Detail = fmt.Sprintf("step horizon %d exceeded", opts.MaxSteps)
			break
		}
		c.stampBlocked(n, reqs[:n], states[:n])
		// forced moves: a thread start and the resumption after a rendezvous only run
		// thread-local code up to the next real point; they commute with everything and
		// are not decisions
		forced := -1
		for i := 0; i < n; i++ {
			if states[i] == stParked && (reqs[i].kind == OpStart || reqs[i].kind == OpResume) {
				forced = i
				break
			}
		}
		if forced >= 0 {
			if opts.Trace {
				c.trace = append(c.trace, fmt.Sprintf("     %s", c.describeReq(forced, &reqs[forced], 0)))
			}
			setStep(int32(step+1), forced)
			if reqs[forced].kind == OpStart && forced == 0 {
				c.running = 0
			}
			grantThread(&threads[forced], 0, false)
			continue
		}
		if c.handleDriver(step, n, reqs[:n], states[:n]) {
			continue
		}
		c.trans = c.trans[:0]
		// canonical order: running thread first, then ascending ids
		order := make([]int, 0, n)
		if c.running < n && states[c.running] == stParked {
			order = append(order, c.running)
		}
		for i := 0; i < n; i++ {
			if i != c.running && states[i] == stParked {
				order = append(order, i)
			}
		}
		nRunning := 0
		for _, i := range order {
			before := len(c.trans)
			c.enabled(i, &reqs[i], reqs[:n], states[:n])
			if i == c.running {
				nRunning = len(c.trans) - before
			}
		}
		if len(c.trans) == 0 {
			// only threads waiting in a polling loop remain: let them look again
			c.spinFallback = true
			for _, i := range order {
				c.enabled(i, &reqs[i], reqs[:n], states[:n])
			}
			c.spinFallback = false
			if len(c.trans) > 0 {
				nRunning = 0
				c.spinIdle++
				if c.spinIdle > 200 {
					res.Outcome = Livelock
					res.Detail = "only threads spinning in a polling loop (runtime.Gosched / time.Sleep) can run, and what they wait for does not happen\n" + c.describeBlocked(reqs[:n], states[:n])
					break
				}
			}
		} else {
			c.spinIdle = 0
		}
		if len(c.trans) == 0 {
			// nothing enabled: deadlock unless only daemons remain (main finished handled above)
			res.Outcome = Deadlock
			res.Detail = c.describeBlocked(reqs[:n], states[:n])
			break
		}
		p := Point{N: len(c.trans), NRunning: nRunning, Frozen: isFrozen()}
		if c.running < n && states[c.running] == stParked {
			p.Yield = reqs[c.running].yield
		}
		var sig uint64 = 1469598103934665603
		for _, tr := range c.trans {
			sig = (sig ^ uint64(tr.Tid+1)) * 1099511628211
			sig = (sig ^ uint64(reqs[tr.Tid].kind)) * 1099511628211
			sig = (sig ^ uint64(tr.Case+1)) * 1099511628211
		}
		p.Sig = sig
		choice := ch.Choose(len(c.points), &p)
		if choice < 0 || choice >= p.N {
			res.Outcome = ReplayDiverged
			res.Detail = fmt.Sprintf("choice %d out of range (%d enabled) at point %d", choice, p.N, len(c.points))
			break
		}
		p.Chosen = choice
		c.points = append(c.points, p)
		tr := c.trans[choice]
		if opts.Trace {
			c.trace = append(c.trace, c.describe(step, tr, &reqs[tr.Tid], &p))
		}
		c.apply(tr, reqs[:n])
		c.tcount++
		c.spinAt[tr.Tid] = 0
		setStep(int32(step+1), tr.Tid)
		c.running = tr.Tid
		if tr.Partner >= 0 {
			ctlHand = tr.Hand
			grantThread(&threads[tr.Partner], tr.PCase, true)
			grantThread(&threads[tr.Tid], tr.Case, true)
		} else {
			grantThread(&threads[tr.Tid], tr.Case, false)
		}
	}
	// tear down: release every parked thread with the abort flag
	c.abortAll()
	atomic.LoadInt64(&finishedCounter)
	res.Points = append([]Point(nil), c.points...)
	res.Trace = c.trace
	res.Events = Events()
	deactivate()
	return res
}

//go:norace
func deactivate() { active = false }

//go:norace
func setAborting() { aborting = true }

//go:norace
func releaseParked() {
	for i := 0; i < nThreads; i++ {
		t := &threads[i]
		if t.state == stParked {
			t.state = stRunning
			t.grant = 1
		}
	}
}

func (c *controller) abortAll() {
	setAborting()
	start := time.Now()
	for i := 0; !allFinished(); i++ {
		releaseParked()
		runtime.Gosched()
		if i&0xffff == 0xffff && time.Since(start) > 20*time.Second {
			buf := make([]byte, 1<<16)
			n := runtime.Stack(buf, true)
			panic("vsched: threads did not terminate on abort\n" + string(buf[:n]))
		}
	}
}

// enabled appends the enabled transitions of thread i.
func (c *controller) enabled(i int, r *request, reqs []request, states []int32) {
	switch r.kind {
	case OpStart, OpResume, OpYield, OpAtomic, OpEnv, OpClose, OpPool, OpOnce:
		c.trans = append(c.trans, Trans{Tid: i, Partner: -1})
	case OpSpin:
		if c.spinAt[i] != 0 && c.tcount >= c.spinAt[i] || c.spinFallback {
			c.trans = append(c.trans, Trans{Tid: i, Partner: -1})
		}
	case OpChoose:
		for v := 0; v < r.nchoose; v++ {
			c.trans = append(c.trans, Trans{Tid: i, Case: v, Partner: -1})
		}
	case OpLock, OpRLock, OpWLock, OpWLockWait:
		if lockFree(r.lock, r.kind) {
			c.trans = append(c.trans, Trans{Tid: i, Partner: -1})
		}
	case OpWGWait:
		if wgZero(r.wg) {
			c.trans = append(c.trans, Trans{Tid: i, Partner: -1})
		}
	case OpJoin:
		ok := true
		for j := range reqs {
			if r.join&(1<<uint(j)) != 0 && states[j] != stFinished {
				ok = false
			}
		}
		if ok {
			c.trans = append(c.trans, Trans{Tid: i, Partner: -1})
		}
	case OpChan:
		any := false
		for k := 0; k < r.ncase; k++ {
			cr := &r.cases[k]
			if cr.ch == 0 {
				continue // nil channel: never ready
			}
			m := c.chanOf(cr)
			if cr.send {
				switch {
				case m.closed:
					c.trans = append(c.trans, Trans{Tid: i, Case: k, Partner: -1}) // will panic, as in Go
					any = true
				case m.cap > 0:
					if m.qlen < m.cap {
						tr := Trans{Tid: i, Case: k, Partner: -1}
						if m.qlen == 0 {
							// a receiver blocked on the empty channel gets the value directly
							if j, pk := c.oldestBlocked(cr.ch, false, i, reqs, states); j >= 0 {
								tr.Partner, tr.PCase, tr.Hand = j, pk, 2
							}
						}
						c.trans = append(c.trans, tr)
						any = true
					}
				default:
					// unbuffered: one transition per parked receiver
					for j := range reqs {
						if j == i || states[j] != stParked || reqs[j].kind != OpChan {
							continue
						}
						for pk := 0; pk < reqs[j].ncase; pk++ {
							pc := &reqs[j].cases[pk]
							if !pc.send && pc.ch == cr.ch {
								c.trans = append(c.trans, Trans{Tid: i, Case: k, Partner: j, PCase: pk, Hand: 1})
								any = true
							}
						}
					}
				}
			} else {
				switch {
				case m.qlen > 0 || m.closed:
					tr := Trans{Tid: i, Case: k, Partner: -1}
					if m.cap > 0 && m.qlen == m.cap && !m.closed {
						// a sender blocked on the full channel completes as part of this receive
						if j, pk := c.oldestBlocked(cr.ch, true, i, reqs, states); j >= 0 {
							tr.Partner, tr.PCase, tr.Hand = j, pk, 3
						}
					}
					c.trans = append(c.trans, tr)
					any = true
				case m.cap == 0:
					// rendezvous is listed on the sender's side; remember that this thread is
					// not blocked if a sender is parked
					for j := range reqs {
						if j == i || states[j] != stParked || reqs[j].kind != OpChan {
							continue
						}
						for pk := 0; pk < reqs[j].ncase; pk++ {
							pc := &reqs[j].cases[pk]
							if pc.send && pc.ch == cr.ch {
								any = true
							}
						}
					}
				}
			}
		}
		if r.hasDefault && !any {
			c.trans = append(c.trans, Trans{Tid: i, Case: r.ncase, Partner: -1})
		}
	case OpDrive, OpQuery:
		// served by handleDriver
	default:
		panic(fmt.Sprintf("vsched: thread %d parked with kind %v", i, r.kind))
	}
}

// readyAlone reports whether thread i, parked at a channel operation, could proceed by itself.
func (c *controller) readyAlone(i int, reqs []request, states []int32) bool {
	r := &reqs[i]
	if r.hasDefault {
		return true
	}
	for k := 0; k < r.ncase; k++ {
		cr := &r.cases[k]
		if cr.ch == 0 {
			continue
		}
		m := c.chanOf(cr)
		if m.closed {
			return true
		}
		if m.cap > 0 {
			if cr.send && m.qlen < m.cap || !cr.send && m.qlen > 0 {
				return true
			}
			continue
		}
		for j := range reqs {
			if j == i || states[j] != stParked || reqs[j].kind != OpChan {
				continue
			}
			for pk := 0; pk < reqs[j].ncase; pk++ {
				if pc := &reqs[j].cases[pk]; pc.send != cr.send && pc.ch == cr.ch {
					return true
				}
			}
		}
	}
	return false
}

// stampBlocked records, in arrival order, the threads that are parked at a channel operation
// which cannot proceed: in Go they sit on the channel's wait queue from that moment on.
func (c *controller) stampBlocked(n int, reqs []request, states []int32) {
	for i := 0; i < n; i++ {
		if states[i] == stParked && reqs[i].kind == OpSpin {
			if c.spinAt[i] == 0 {
				c.spinAt[i] = c.tcount + 1
			}
		} else {
			c.spinAt[i] = 0
		}
		if states[i] != stParked || reqs[i].kind != OpChan {
			c.blocked[i] = 0
			continue
		}
		if c.blocked[i] == 0 && !c.readyAlone(i, reqs, states) {
			c.blockSeq++
			c.blocked[i] = c.blockSeq
		}
	}
}

// oldestBlocked returns the longest-blocked thread (and its case index) with a send (wantSend)
// or receive case on channel ch, or -1.
func (c *controller) oldestBlocked(ch uintptr, wantSend bool, except int, reqs []request, states []int32) (int, int) {
	best, bestCase := -1, 0
	for j := range reqs {
		if j == except || states[j] != stParked || reqs[j].kind != OpChan || c.blocked[j] == 0 {
			continue
		}
		for pk := 0; pk < reqs[j].ncase; pk++ {
			if pc := &reqs[j].cases[pk]; pc.send == wantSend && pc.ch == ch {
				if best < 0 || c.blocked[j] < c.blocked[best] {
					best, bestCase = j, pk
				}
				break
			}
		}
	}
	return best, bestCase
}

func (c *controller) apply(tr Trans, reqs []request) {
	r := &reqs[tr.Tid]
	switch r.kind {
	case OpChan:
		if tr.Case >= r.ncase {
			return // default
		}
		cr := &r.cases[tr.Case]
		m := c.chanOf(cr)
		if tr.Partner >= 0 || m.closed {
			return
		}
		if cr.send {
			m.qlen++
		} else if m.qlen > 0 {
			m.qlen--
		}
	case OpClose:
		cr := caseReq{ref: r.cases[0].ref, ch: r.obj, cap: int32(r.cases[0].cap), len: int32(r.cases[0].len)}
		if r.obj != 0 {
			c.chanOf(&cr).closed = true
		}
	}
}

func (c *controller) objName(kind string, addr uintptr) string {
	if addr == 0 {
		return kind + "#nil"
	}
	s, ok := c.objSeq[addr]
	if !ok {
		s = len(c.objSeq) + 1
		c.objSeq[addr] = s
	}
	return fmt.Sprintf("%s#%d", kind, s)
}

func (c *controller) describeReq(i int, r *request, caseIdx int) string {
	name, daemon, _, _, _ := threadMeta(i)
	if name == "" {
		name = "daemon"
		if !daemon {
			name = "thread"
		}
	}
	who := fmt.Sprintf("T%d(%s)", i, name)
	switch r.kind {
	case OpLock, OpRLock, OpWLock, OpWLockWait:
		return fmt.Sprintf("%s %v %s", who, r.kind, c.objName("lock", uintptr(unsafe.Pointer(r.lock))))
	case OpAtomic:
		return fmt.Sprintf("%s atomic %s", who, c.objName("cell", r.obj))
	case OpChan:
		if caseIdx >= r.ncase {
			return who + " select default"
		}
		var parts []string
		for k := 0; k < r.ncase; k++ {
			cr := &r.cases[k]
			d := "recv"
			if cr.send {
				d = "send"
			}
			s := fmt.Sprintf("%s %s", d, c.objName("chan", cr.ch))
			if k == caseIdx {
				s = "[" + s + "]"
			}
			parts = append(parts, s)
		}
		return who + " " + strings.Join(parts, " | ")
	case OpClose:
		return fmt.Sprintf("%s close %s", who, c.objName("chan", r.obj))
	case OpChoose:
		return fmt.Sprintf("%s choose %d/%d", who, caseIdx, r.nchoose)
	case OpEnv:
		return fmt.Sprintf("%s env %s", who, r.label)
	}
	return fmt.Sprintf("%s %v", who, r.kind)
}

func (c *controller) describe(step int, tr Trans, r *request, p *Point) string {
	s := fmt.Sprintf("%3d: %s", step, c.describeReq(tr.Tid, r, tr.Case))
	if tr.Partner >= 0 {
		s += fmt.Sprintf(" <-> T%d", tr.Partner)
	}
	s += fmt.Sprintf("   (choice %d of %d", p.Chosen, p.N)
	if p.Yield {
		s += ", yield"
	}
	if p.Frozen {
		s += ", frozen"
	}
	return s + ")"
}

func (c *controller) describeBlocked(reqs []request, states []int32) string {
	var parts []string
	for i := range reqs {
		if states[i] == stParked {
			parts = append(parts, "blocked: "+c.describeReq(i, &reqs[i], -1))
		}
	}
	return strings.Join(parts, "; ")
}


// involving appends the enabled transitions in which thread tid takes part (as initiator or
// as the receiving partner of a rendezvous).
func (c *controller) involving(tid int, reqs []request, states []int32) {
	c.trans = c.trans[:0]
	if states[tid] != stParked {
		return
	}
	c.enabled(tid, &reqs[tid], reqs, states)
	for j := range reqs {
		if j == tid || states[j] != stParked || reqs[j].kind != OpChan {
			continue
		}
		before := len(c.trans)
		c.enabled(j, &reqs[j], reqs, states)
		// keep only unbuffered rendezvous with tid: there both sides are at the operation. In a
		// hand-off / pull on a buffered channel the blocked thread is passive: the transition
		// is the OTHER thread's decision and must not be triggered by driving the blocked one.
		k := before
		for _, tr := range c.trans[before:] {
			if tr.Partner == tid && tr.Hand == 1 {
				c.trans[k] = tr
				k++
			}
		}
		c.trans = c.trans[:k]
	}
}

func (c *controller) descs(reqs []request) []TransDesc {
	out := make([]TransDesc, 0, len(c.trans))
	for _, tr := range c.trans {
		r := &reqs[tr.Tid]
		d := TransDesc{Kind: r.kind, Case: tr.Case, Partner: tr.Partner}
		if r.kind == OpChan && tr.Case < r.ncase {
			d.Send = r.cases[tr.Case].send
			if m, ok := c.chans[r.cases[tr.Case].ch]; ok {
				d.ChanSeq = m.seq
			}
		}
		out = append(out, d)
	}
	return out
}

// handleDriver serves OpQuery / OpDrive requests of a sequential driver thread. It returns
// true when it performed a step of its own.
func (c *controller) handleDriver(step, n int, reqs []request, states []int32) bool {
	if !c.driving {
		d := -1
		for i := 0; i < n; i++ {
			if states[i] == stParked && (reqs[i].kind == OpQuery || reqs[i].kind == OpDrive) {
				d = i
				break
			}
		}
		if d < 0 {
			return false
		}
		tgt := reqs[d].target
		if tgt < 0 || tgt >= n || tgt == d {
			panic(fmt.Sprintf("vsched: bad drive/query target %d", tgt))
		}
		if reqs[d].kind == OpQuery {
			c.involving(tgt, reqs, states)
			answerQuery(&threads[d], c.descs(reqs))
			grantThread(&threads[d], 0, false)
			return true
		}
		c.driving, c.driver, c.driveFirst = true, d, true
	}
	d := c.driver
	tgt := reqs[d].target
	finish := func(st DriveStatus) bool {
		c.driving = false
		answerDrive(&threads[d], st)
		c.running = d
		setStep(int32(step+1), d)
		grantThread(&threads[d], 0, false)
		return true
	}
	if states[tgt] == stFinished {
		return finish(DriveFinished)
	}
	if !c.driveFirst && reqs[tgt].yield {
		return finish(DriveYielded)
	}
	if !c.driveFirst && states[tgt] == stParked && reqs[tgt].kind == OpChoose {
		setQN(&threads[d], reqs[tgt].nchoose)
		return finish(DriveChoice)
	}
	c.involving(tgt, reqs, states)
	if len(c.trans) == 0 {
		return finish(DriveBlocked)
	}
	pick := 0
	if c.driveFirst {
		pick = reqs[d].pick
		if pick < 0 || pick >= len(c.trans) {
			panic(fmt.Sprintf("vsched: Drive pick %d out of range (%d enabled)", pick, len(c.trans)))
		}
	}
	c.driveFirst = false
	tr := c.trans[pick]
	if c.opts.Trace {
		p := Point{N: len(c.trans), Chosen: pick}
		c.trace = append(c.trace, c.describe(step, tr, &reqs[tr.Tid], &p))
	}
	c.apply(tr, reqs)
	c.tcount++
	c.spinAt[tr.Tid] = 0
	setStep(int32(step+1), tr.Tid)
	c.running = tr.Tid
	if tr.Partner >= 0 {
		ctlHand = tr.Hand
		grantThread(&threads[tr.Partner], tr.PCase, true)
		grantThread(&threads[tr.Tid], tr.Case, true)
	} else {
		grantThread(&threads[tr.Tid], tr.Case, false)
	}
	return true
}
