package vsched

import (
	"cmp"
	"fmt"
	"iter"
	"reflect"
	"slices"
	"unsafe"
)

// chanPtr returns the runtime channel pointer of ch (0 for nil).
func chanPtr[C any](ch C) uintptr {
	return uintptr(*(*unsafe.Pointer)(unsafe.Pointer(&ch)))
}

//go:norace
func (t *Thread) chan1(send bool, ref any, ch uintptr, capa, ln int) {
	t.req.kind = OpChan
	t.req.lock = nil
	t.req.ncase = 1
	t.req.hasDefault = false
	t.req.cases[0] = caseReq{send: send, ref: ref, ch: ch, cap: int32(capa), len: int32(ln)}
	// blocking channel operations of daemon threads (the applier's and the policy
	// goroutine's idle loops) are voluntary switch points
	t.req.yield = t.daemon && daemonYield
	if shadowOn && inHand != nil && !send {
		delete(inHand, t.id) // back at a receive: whatever was in hand has been dealt with
	}
	t.park()
}

//go:norace
func (t *Thread) afterChanOp() {
	if t.rdv {
		t.rdv = false
		t.simple(OpResume, 0, false)
	}
}

// ----- shadow queues (sequential driver only; never under the race build) ------------------------

var (
	shadowOn bool
	shadow   map[uintptr][]any
)

// SetShadow turns the recording of channel contents on or off (reset at every execution).
func SetShadow(on bool) {
	shadowOn = on
	shadow = map[uintptr][]any{}
	inHand = map[int]any{}
}

// ShadowOf returns the values currently queued in ch, oldest first (only with SetShadow(true)).
func ShadowOf[C any](ch C) []any { return shadow[chanPtr(ch)] }

// ShadowAt is ShadowOf for a channel given by its address (reflect.Value.Pointer of a chan).
func ShadowAt(ch uintptr) []any { return shadow[ch] }

func shadowPush(ch uintptr, v any) {
	if cap := len(shadow[ch]); cap >= 0 {
		shadow[ch] = append(shadow[ch], v)
	}
}

func shadowPop(ch uintptr) {
	if q := shadow[ch]; len(q) > 0 {
		shadow[ch] = q[1:]
	}
}

// Send is `ch <- v`.
func Send[T any](ch chan<- T, v T) {
	t := cur()
	if t == nil {
		ch <- v
		return
	}
	t.chan1(true, ch, chanPtr(ch), cap(ch), len(ch))
	if shadowOn && cap(ch) > 0 && t.hand != 2 {
		shadowPush(chanPtr(ch), v)
	}
	ch <- v
	t.afterChanOp()
}

// Recv is `<-ch`.
func Recv[T any](ch <-chan T) T {
	t := cur()
	if t == nil {
		return <-ch
	}
	t.chan1(false, ch, chanPtr(ch), cap(ch), len(ch))
	v := <-ch
	if shadowOn && cap(ch) > 0 {
		if t.hand == 2 {
			inHand[t.id] = v
		} else {
			shadowPop(chanPtr(ch))
		}
	}
	t.afterChanOp()
	return v
}

// Recv2 is `v, ok := <-ch`.
func Recv2[T any](ch <-chan T) (T, bool) {
	t := cur()
	if t == nil {
		v, ok := <-ch
		return v, ok
	}
	t.chan1(false, ch, chanPtr(ch), cap(ch), len(ch))
	v, ok := <-ch
	if shadowOn && cap(ch) > 0 {
		if t.hand == 2 {
			inHand[t.id] = v
		} else {
			shadowPop(chanPtr(ch))
		}
	}
	t.afterChanOp()
	return v, ok
}

//go:norace
func (t *Thread) closePoint(ref any, ch uintptr, capa, ln int) {
	t.req.kind = OpClose
	t.req.obj = ch
	t.req.lock = nil
	t.req.ncase = 0
	t.req.yield = false
	t.req.cases[0] = caseReq{ref: ref, ch: ch, cap: int32(capa), len: int32(ln)}
	t.park()
}

// Close is close(ch).
func Close[T any](ch chan<- T) {
	t := cur()
	if t == nil {
		close(ch)
		return
	}
	t.closePoint(ch, chanPtr(ch), cap(ch), len(ch))
	close(ch)
}

// RangeChan is `for v := range ch`.
func RangeChan[T any](ch <-chan T) iter.Seq[T] {
	return func(yield func(T) bool) {
		for {
			v, ok := Recv2(ch)
			if !ok {
				return
			}
			if !yield(v) {
				return
			}
		}
	}
}

// BlockForever is `select {}`.
//
//go:norace
func BlockForever() {
	t := cur()
	if t == nil {
		select {}
	}
	t.req.kind = OpChan
	t.req.ncase = 0
	t.req.hasDefault = false
	t.req.lock = nil
	t.req.yield = true
	t.park()
	panic("vsched: BlockForever was scheduled")
}

// ----- select -----------------------------------------------------------------------------------

// SelCase is one communication clause of a rewritten select statement.
type SelCase interface {
	info() (send bool, ref any, ch uintptr, capa, ln int)
	do()
	refl() reflect.SelectCase
	set(v reflect.Value, ok bool)
}

type RCase[T any] struct {
	ch <-chan T
	v  T
	ok bool
}

func RecvCase[T any](ch <-chan T) *RCase[T] { return &RCase[T]{ch: ch} }

func (c *RCase[T]) Val() T          { return c.v }
func (c *RCase[T]) Val2() (T, bool) { return c.v, c.ok }
func (c *RCase[T]) info() (bool, any, uintptr, int, int) {
	return false, c.ch, chanPtr(c.ch), cap(c.ch), len(c.ch)
}
func (c *RCase[T]) do() {
	c.v, c.ok = <-c.ch
	if shadowOn && cap(c.ch) > 0 {
		if t := cur(); t != nil && t.hand == 2 {
			inHand[t.id] = c.v
		} else {
			shadowPop(chanPtr(c.ch))
		}
	}
}
func (c *RCase[T]) refl() reflect.SelectCase {
	return reflect.SelectCase{Dir: reflect.SelectRecv, Chan: reflect.ValueOf(c.ch)}
}
func (c *RCase[T]) set(v reflect.Value, ok bool) {
	c.ok = ok
	if ok {
		c.v = v.Interface().(T)
	} else if v.IsValid() && v.CanInterface() {
		c.v, _ = v.Interface().(T)
	}
}

type SCase[T any] struct {
	ch chan<- T
	v  T
}

func SendCase[T any](ch chan<- T, v T) *SCase[T] { return &SCase[T]{ch: ch, v: v} }

func (c *SCase[T]) info() (bool, any, uintptr, int, int) {
	return true, c.ch, chanPtr(c.ch), cap(c.ch), len(c.ch)
}
func (c *SCase[T]) do() {
	if shadowOn && cap(c.ch) > 0 {
		if t := cur(); t == nil || t.hand != 2 {
			shadowPush(chanPtr(c.ch), c.v)
		}
	}
	c.ch <- c.v
}
func (c *SCase[T]) refl() reflect.SelectCase {
	return reflect.SelectCase{Dir: reflect.SelectSend, Chan: reflect.ValueOf(c.ch), Send: reflect.ValueOf(&c.v).Elem()}
}
func (c *SCase[T]) set(reflect.Value, bool) {}

//go:norace
func (t *Thread) selectPoint(hasDefault bool, n int, infos *[MaxCases]caseReq) int {
	t.req.kind = OpChan
	t.req.lock = nil
	t.req.ncase = n
	t.req.hasDefault = hasDefault
	t.req.cases = *infos
	// A daemon's select is a voluntary switch point when it blocks (its idle loop) and also when
	// it polls a channel for more work (`select { case x := <-ch: ... default: }` - a change may
	// make the applier drain its buffer in batches): the sequential driver then still sees ONE
	// buffered item per applier step, whatever the loop structure of the code.
	polls := false
	for i := 0; i < n; i++ {
		polls = polls || !infos[i].send
	}
	t.req.yield = t.daemon && daemonYield && (!hasDefault || polls)
	if shadowOn && inHand != nil && (!hasDefault || (t.daemon && polls)) {
		delete(inHand, t.id)
	}
	return t.park()
}

// Select performs a rewritten select statement and returns the index of the clause that
// fired (len(cases) for default).
func Select(hasDefault bool, cases ...SelCase) int {
	t := cur()
	if t == nil {
		rc := make([]reflect.SelectCase, 0, len(cases)+1)
		for _, c := range cases {
			k := c.refl()
			if !k.Chan.IsValid() || k.Chan.IsNil() {
				k.Chan = reflect.Value{} // nil channel: never ready
				k.Send = reflect.Value{}
			}
			rc = append(rc, k)
		}
		if hasDefault {
			rc = append(rc, reflect.SelectCase{Dir: reflect.SelectDefault})
		}
		i, v, ok := reflect.Select(rc)
		if i < len(cases) {
			cases[i].set(v, ok)
		}
		return i
	}
	if len(cases) > MaxCases {
		panic(fmt.Sprintf("vsched: select with %d cases", len(cases)))
	}
	var infos [MaxCases]caseReq
	for i, c := range cases {
		s, ref, ch, capa, ln := c.info()
		infos[i] = caseReq{send: s, ref: ref, ch: ch, cap: int32(capa), len: int32(ln)}
	}
	idx := t.selectPoint(hasDefault, len(cases), &infos)
	if idx < len(cases) {
		cases[idx].do()
		t.afterChanOp()
	}
	return idx
}

// ----- map range -------------------------------------------------------------------------------

// MapRange is `for k, v := range m` with an iteration order owned by the explorer: the keys
// are snapshotted and sorted canonically, then rotated by an explorer choice (the number of
// alternatives comes from SetMapOrder). Entries deleted during the iteration are not
// produced, entries added are not produced either (Go permits both).
func MapRange[M ~map[K]V, K comparable, V any](m M) iter.Seq2[K, V] {
	return func(yield func(K, V) bool) {
		if cur() == nil {
			for k, v := range m {
				if !yield(k, v) {
					return
				}
			}
			return
		}
		keys := make([]K, 0, len(m))
		for k := range m {
			keys = append(keys, k)
		}
		sortKeys(keys)
		rot := 0
		if mapOrder != nil && len(keys) > 1 {
			if n := mapOrder(len(keys)); n > 1 {
				rot = Choose(n)
			}
		}
		keys = permute(keys, rot)
		logYield := MapYieldKind != 0
		if logYield {
			Log(MapYieldKind, -1, int64(len(keys)), 0) // start of one range statement
		}
		for _, k := range keys {
			v, ok := m[k]
			if !ok {
				continue
			}
			if logYield {
				if u, isU := any(k).(uint64); isU {
					Log(MapYieldKind, int64(u), 0, 1)
				}
			}
			if !yield(k, v) {
				return
			}
		}
	}
}

// MapYieldKind, when non-zero, makes MapRange log (as events of this kind) the start of every
// range statement (A = -1, B = number of keys) and every uint64 key it hands to the loop body
// (A = key, C = 1): the oracle of C09 reconstructs the eviction sample from it.
var MapYieldKind uint8

// permute returns the rot-th order of keys: for rot < len it is the rotation by rot; beyond
// that, the (rot-len)-th permutation in lexicographic order of indices (used when the policy
// asks for all n! orders of a small map).
func permute[K any](keys []K, rot int) []K {
	n := len(keys)
	if rot == 0 {
		return keys
	}
	out := make([]K, 0, n)
	if rot < n {
		out = append(out, keys[rot:]...)
		out = append(out, keys[:rot]...)
		return out
	}
	idx := rot - n
	avail := make([]int, n)
	for i := range avail {
		avail[i] = i
	}
	fact := 1
	for i := 2; i < n; i++ {
		fact *= i
	}
	idx %= fact * n
	for i := n; i >= 1; i-- {
		f := fact
		q := idx / f
		idx %= f
		out = append(out, keys[avail[q]])
		avail = append(avail[:q], avail[q+1:]...)
		if i > 1 {
			fact /= (i - 1)
		}
	}
	return out
}

func sortKeys[K comparable](keys []K) {
	switch ks := any(keys).(type) {
	case []uint64:
		slices.Sort(ks)
	case []int64:
		slices.Sort(ks)
	case []int:
		slices.Sort(ks)
	case []string:
		slices.Sort(ks)
	case []uint32:
		slices.Sort(ks)
	default:
		slices.SortFunc(keys, func(a, b K) int { return cmp.Compare(fmt.Sprint(a), fmt.Sprint(b)) })
	}
}
