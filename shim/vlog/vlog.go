// Package vlog replaces "log" in the code under test: Fatal* panics instead of exiting the
// process, so an assertion failure inside ristretto becomes an observable outcome of one
// explored execution instead of killing the explorer.
package vlog

import (
	"fmt"
	"log"
)

// FatalError is the panic value raised by Fatal, Fatalf and Fatalln.
type FatalError struct{ Msg string }

func (e FatalError) Error() string { return "log.Fatal: " + e.Msg }

func Fatal(v ...any)                 { panic(FatalError{fmt.Sprint(v...)}) }
func Fatalf(format string, v ...any) { panic(FatalError{fmt.Sprintf(format, v...)}) }
func Fatalln(v ...any)               { panic(FatalError{fmt.Sprintln(v...)}) }
func Panic(v ...any)                 { log.Panic(v...) }
func Panicf(format string, v ...any) { log.Panicf(format, v...) }
func Panicln(v ...any)               { log.Panicln(v...) }
func Print(v ...any)                 {}
func Printf(format string, v ...any) {}
func Println(v ...any)               {}

type Logger = log.Logger

var (
	New       = log.New
	Default   = log.Default
	SetOutput = log.SetOutput
	SetFlags  = log.SetFlags
	SetPrefix = log.SetPrefix
	Writer    = log.Writer
	Flags     = log.Flags
	Prefix    = log.Prefix
)

const (
	Ldate         = log.Ldate
	Ltime         = log.Ltime
	Lmicroseconds = log.Lmicroseconds
	Llongfile     = log.Llongfile
	Lshortfile    = log.Lshortfile
	LUTC          = log.LUTC
	Lmsgprefix    = log.Lmsgprefix
	LstdFlags     = log.LstdFlags
)
