// Package vtime replaces "time" in the code under test. Types and constants are aliases of
// the real ones. Under the scheduler Now/Since/Until read a virtual clock that only moves
// when a scenario thread calls Advance, and tickers fire only when a scenario thread calls
// Fire; outside the scheduler everything forwards to package time.
package vtime

import (
	"sync/atomic"
	"time"

	"verif/shim/vsched"
)

type (
	Time       = time.Time
	Duration   = time.Duration
	Month      = time.Month
	Weekday    = time.Weekday
	Location   = time.Location
	ParseError = time.ParseError
)

const (
	Nanosecond  = time.Nanosecond
	Microsecond = time.Microsecond
	Millisecond = time.Millisecond
	Second      = time.Second
	Minute      = time.Minute
	Hour        = time.Hour

	RFC3339     = time.RFC3339
	RFC3339Nano = time.RFC3339Nano
)

var (
	UTC   = time.UTC
	Local = time.Local
)

var (
	Unix          = time.Unix
	UnixMilli     = time.UnixMilli
	UnixMicro     = time.UnixMicro
	Date          = time.Date
	ParseDuration = time.ParseDuration
	Parse         = time.Parse
)

// Base is the virtual epoch: a whole multiple of every bucket length used, well after 1970.
var Base = time.Unix(1_700_000_000, 0)

var offset atomic.Int64 // nanoseconds since Base

// ResetClock is called by scenarios at the start of an execution.
//
//go:norace
func ResetClock() {
	offset.Store(0)
	vsched.NoteClock(0)
	nTickers = 0
}

func virtual() bool { return vsched.Cur() != nil }

func Now() Time {
	if !virtual() {
		return time.Now()
	}
	vsched.ClockPoint()
	return Base.Add(Duration(offset.Load()))
}

func Since(t Time) Duration {
	if !virtual() {
		return time.Since(t)
	}
	return Now().Sub(t)
}

func Until(t Time) Duration {
	if !virtual() {
		return time.Until(t)
	}
	return t.Sub(Now())
}

// Advance moves the virtual clock; a schedule point of the calling scenario thread.
func Advance(d Duration) {
	vsched.EnvPoint("advance " + d.String())
	vsched.NoteClock(offset.Add(int64(d)))
}

// AdvanceNoPoint moves the clock without a schedule point (set-up code).
func AdvanceNoPoint(d Duration) { vsched.NoteClock(offset.Add(int64(d))) }

// Sleep under the scheduler is the body of a polling loop (vsched.Gosched): the thread goes on
// after another thread has made a step; virtual time does not move.
func Sleep(d Duration) {
	if !virtual() {
		time.Sleep(d)
		return
	}
	vsched.Gosched()
}

// Ticker mirrors time.Ticker.
type Ticker struct {
	C    <-chan Time
	ch   chan Time
	real *time.Ticker
	stop atomic.Bool
}

const maxTickers = 16

var (
	tickers  [maxTickers]*Ticker
	nTickers int
)

func NewTicker(d Duration) *Ticker {
	if d <= 0 {
		panic("non-positive interval for NewTicker")
	}
	if !virtual() {
		r := time.NewTicker(d)
		return &Ticker{C: r.C, real: r}
	}
	ch := make(chan Time, 1)
	t := &Ticker{C: ch, ch: ch}
	register(t)
	return t
}

//go:norace
func register(t *Ticker) {
	if nTickers < maxTickers {
		tickers[nTickers] = t
		nTickers++
	}
}

// Tickers returns the tickers created under the scheduler in this execution, in creation order.
//
//go:norace
func Tickers() []*Ticker {
	out := make([]*Ticker, nTickers)
	copy(out, tickers[:nTickers])
	return out
}

func (t *Ticker) Stop() {
	if t.real != nil {
		t.real.Stop()
		return
	}
	t.stop.Store(true)
}

func (t *Ticker) Reset(d Duration) {
	if t.real != nil {
		t.real.Reset(d)
		return
	}
	t.stop.Store(false)
}

// Pending reports whether a delivered tick has not been consumed yet (0 or 1).
func (t *Ticker) Pending() int { return len(t.ch) }

// Fire delivers one tick (dropped, like a real ticker's, if the previous one has not been
// consumed). A schedule point of the calling scenario thread.
func (t *Ticker) Fire() {
	if t.real != nil {
		panic("vtime: Fire on a real ticker")
	}
	if t.stop.Load() {
		vsched.EnvPoint("tick (stopped)")
		return
	}
	vsched.Select(true, vsched.SendCase(t.ch, Now()))
}

// Timer / After are provided for completeness (pass-through outside the scheduler; under the
// scheduler they never fire by themselves).
type Timer struct {
	C    <-chan Time
	real *time.Timer
}

func NewTimer(d Duration) *Timer {
	if !virtual() {
		r := time.NewTimer(d)
		return &Timer{C: r.C, real: r}
	}
	return &Timer{C: make(chan Time, 1)}
}

func (t *Timer) Stop() bool {
	if t.real != nil {
		return t.real.Stop()
	}
	return true
}

func (t *Timer) Reset(d Duration) bool {
	if t.real != nil {
		return t.real.Reset(d)
	}
	return true
}

func After(d Duration) <-chan Time { return NewTimer(d).C }

func Tick(d Duration) <-chan Time { return NewTicker(d).C }
