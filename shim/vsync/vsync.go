// Package vsync replaces "sync" in the code under test. Outside the scheduler every type
// behaves exactly like its sync counterpart (pass-through); under the scheduler, blocking
// operations are schedule points and are granted only when they cannot block, and the real
// primitive is still operated so that the race detector sees the program's own
// synchronisation and nothing else.
package vsync

import (
	"sync"
	"sync/atomic"
	"unsafe"

	"verif/shim/vsched"
)

type Locker = sync.Locker

type Mutex struct {
	st vsched.LockState
	mu sync.Mutex
}

func (m *Mutex) Lock() {
	vsched.MutexLock(&m.st)
	m.mu.Lock()
}

func (m *Mutex) Unlock() {
	vsched.MutexUnlock(&m.st)
	m.mu.Unlock()
}

func (m *Mutex) TryLock() bool {
	if ok, controlled := vsched.MutexTryLock(&m.st); controlled {
		if ok {
			m.mu.Lock()
		}
		return ok
	}
	return m.mu.TryLock()
}

type RWMutex struct {
	st vsched.LockState
	mu sync.RWMutex
}

func (m *RWMutex) Lock() {
	vsched.RWLock(&m.st)
	m.mu.Lock()
}

func (m *RWMutex) Unlock() {
	vsched.RWUnlock(&m.st)
	m.mu.Unlock()
}

func (m *RWMutex) RLock() {
	vsched.RWRLock(&m.st)
	m.mu.RLock()
}

func (m *RWMutex) RUnlock() {
	vsched.RWRUnlock(&m.st)
	m.mu.RUnlock()
}

func (m *RWMutex) RLocker() Locker { return (*rlocker)(m) }

type rlocker RWMutex

func (r *rlocker) Lock()   { (*RWMutex)(r).RLock() }
func (r *rlocker) Unlock() { (*RWMutex)(r).RUnlock() }

// WaitGroup: Wait is a blocking point enabled when the counter is zero.
type WaitGroup struct {
	st vsched.WGState
	wg sync.WaitGroup
}

func (w *WaitGroup) Add(d int) {
	vsched.WGAdd(&w.st, d)
	w.wg.Add(d)
}
func (w *WaitGroup) Done() { w.Add(-1) }
func (w *WaitGroup) Wait() {
	vsched.WGWait(&w.st)
	w.wg.Wait()
}
func (w *WaitGroup) Go(f func()) {
	w.Add(1)
	vsched.Go(func() {
		defer w.Done()
		f()
	})
}

// Once: Do is a Mutex-protected check, so concurrent callers block until the first returns.
type Once struct {
	m    Mutex
	done atomic.Uint32
}

func (o *Once) Do(f func()) {
	if o.done.Load() == 1 {
		return
	}
	o.m.Lock()
	defer o.m.Unlock()
	if o.done.Load() == 0 {
		defer o.done.Store(1)
		f()
	}
}

// Pool is a deterministic sync.Pool: a LIFO of the items put back, never dropped. Each slot
// carries its own release/acquire pair so that the race detector sees the Put(x) -> Get()==x
// edge of the real Pool and no edge between unrelated items.
type Pool struct {
	New func() any

	real  sync.Pool
	once  sync.Once
	slots [poolSlots]poolSlot
	n     int
}

const poolSlots = 32

type poolSlot struct {
	flag atomic.Uint32
	item any
}

func (p *Pool) Get() any {
	if vsched.Cur() == nil {
		p.once.Do(func() { p.real.New = p.New })
		return p.real.Get()
	}
	vsched.PoolPoint(unsafe.Pointer(p))
	if x, ok := p.pop(); ok {
		return x
	}
	if p.New != nil {
		return p.New()
	}
	return nil
}

func (p *Pool) Put(x any) {
	if vsched.Cur() == nil {
		p.real.Put(x)
		return
	}
	p.push(x)
}

// Items returns the pooled items, oldest first (white-box, sequential driver only).
func (p *Pool) Items() []any {
	out := make([]any, 0, p.n)
	for i := 0; i < p.n; i++ {
		out = append(out, p.slots[i].item)
	}
	return out
}

//go:norace
func (p *Pool) pop() (any, bool) {
	if p.n == 0 {
		return nil, false
	}
	p.n--
	s := &p.slots[p.n]
	s.flag.Load() // acquire: pairs with the Store in push
	x := s.item
	s.item = nil
	return x, true
}

//go:norace
func (p *Pool) push(x any) {
	if p.n >= poolSlots {
		return // a Pool may drop items
	}
	s := &p.slots[p.n]
	s.item = x
	s.flag.Store(1) // release
	p.n++
}

// Map and Cond are not used by the code under test; they are passed through unchanged.
type Map = sync.Map

func OnceFunc(f func()) func() { return sync.OnceFunc(f) }

// Cond: a FIFO of waiters, each parked on its own one-slot channel; Signal hands a token to the
// longest waiter (as the runtime's notify list does), Broadcast to all. The channel operations
// are ordinary schedule points of the controlled scheduler, and a real send/receive pair is
// exactly the "Signal synchronizes before the Wait it unblocks" edge of the memory model.
type Cond struct {
	L Locker

	qmu sync.Mutex // protects q in pass-through mode; uncontended under the cooperative scheduler
	q   [condMaxWaiters]chan struct{}
	n   int
}

const condMaxWaiters = 64

func NewCond(l Locker) *Cond { return &Cond{L: l} }

func (c *Cond) Wait() {
	ch := make(chan struct{}, 1)
	c.qmu.Lock()
	if c.n == condMaxWaiters {
		c.qmu.Unlock()
		panic("vsync.Cond: too many waiters for the harness")
	}
	c.q[c.n] = ch
	c.n++
	c.qmu.Unlock()
	c.L.Unlock()
	vsched.Recv(ch)
	c.L.Lock()
}

func (c *Cond) pop() chan struct{} {
	c.qmu.Lock()
	defer c.qmu.Unlock()
	if c.n == 0 {
		return nil
	}
	ch := c.q[0]
	copy(c.q[:], c.q[1:c.n])
	c.n--
	c.q[c.n] = nil
	return ch
}

func (c *Cond) Signal() {
	if ch := c.pop(); ch != nil {
		vsched.Send(ch, struct{}{})
	}
}

func (c *Cond) Broadcast() {
	for ch := c.pop(); ch != nil; ch = c.pop() {
		vsched.Send(ch, struct{}{})
	}
}
