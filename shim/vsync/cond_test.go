package vsync

import (
	"testing"
	"time"
)

// pass-through mode (no scheduler): Cond behaves like sync.Cond
func TestCondPassThrough(t *testing.T) {
	var mu Mutex
	c := NewCond(&mu)
	ready := 0
	done := make(chan int, 8)
	for i := 0; i < 4; i++ {
		go func(i int) {
			mu.Lock()
			for ready == 0 {
				c.Wait()
			}
			ready--
			mu.Unlock()
			done <- i
		}(i)
	}
	time.Sleep(20 * time.Millisecond)
	mu.Lock()
	ready = 1
	c.Signal()
	mu.Unlock()
	<-done
	mu.Lock()
	ready = 3
	c.Broadcast()
	mu.Unlock()
	for i := 0; i < 3; i++ {
		select {
		case <-done:
		case <-time.After(2 * time.Second):
			t.Fatal("waiter not released by Broadcast")
		}
	}
}
