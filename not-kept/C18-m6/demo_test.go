// dir: .
package ristretto

import "testing"

// A Push batch that straddles the aging threshold: the reset has to happen
// exactly after NumCounters recorded accesses (i.e. in the middle of the batch),
// and the accesses recorded after it belong to the new sample window.
func TestDemoPushBatchStraddlesReset(t *testing.T) {
	const n = 8
	a := newTinyLFU(n)
	cold := []uint64{
		0x2545f4914f6cdd1d, 0xbf58476d1ce4e5b9, 0x94d049bb133111eb, 0xff51afd7ed558ccd,
		0xc4ceb9fe1a85ec53, 0x87c37b91114253d5, 0x4cf5ad432745937f,
	}
	a.Push(cold) // 7 first-time keys, all absorbed by the doorkeeper
	if a.incrs != 7 {
		t.Fatalf("incrs = %d after 7 accesses, want 7", a.incrs)
	}
	for i, k := range cold {
		if got := a.Estimate(k); got != 1 {
			t.Fatalf("cold key %d: estimate %d, want 1", i, got)
		}
	}

	const x = uint64(0xd6e8feb86659fd93)
	if a.door.Has(x) {
		t.Fatal("precondition: x must not be in the doorkeeper yet")
	}
	// 1st access of x is the 8th recorded access: aging reset (door cleared,
	// counters halved). The remaining 4 accesses are in the new window:
	// one goes to the doorkeeper, three to the counters.
	a.Push([]uint64{x, x, x, x, x})

	if got := a.Estimate(x); got < 4 {
		t.Fatalf("estimate of x = %d after 4 recorded accesses since the last reset, want >= min(4,15)", got)
	}
	if !a.door.Has(x) {
		t.Fatal("x accessed 4 times since the reset but its first-access mark is missing")
	}
	if a.incrs != 4 {
		t.Fatalf("incrs = %d, want 4 (reset after exactly %d increments, 4 accesses since)", a.incrs, n)
	}
	for i, k := range cold {
		if a.door.Has(k) {
			t.Fatalf("cold key %d still has its first-access mark after the reset", i)
		}
	}
}

// Push(batch) must be the same thing as Increment for each key in order.
// One single key is used so that no count-min collision can blur the numbers.
func TestDemoPushEqualsIncrementLoop(t *testing.T) {
	const n = 8
	const x = uint64(0x9e3779b97f4a7c15)
	byPush, byInc := newTinyLFU(n), newTinyLFU(n)
	batch := []uint64{x, x, x, x, x}
	for round := 1; round <= 8; round++ {
		byPush.Push(batch)
		for _, k := range batch {
			byInc.Increment(k)
		}
		if byPush.incrs != byInc.incrs {
			t.Fatalf("round %d: incrs %d via Push, %d via Increment", round, byPush.incrs, byInc.incrs)
		}
		if p, i := byPush.Estimate(x), byInc.Estimate(x); p != i {
			t.Fatalf("round %d: estimate %d via Push, %d via Increment", round, p, i)
		}
	}
}
