// dir: .
package ristretto

import (
	"testing"

	"github.com/stretchr/testify/require"
)

// A run of the same key inside one Push batch straddles the aging reset:
// NumCounters = 8, so the reset fires on the 8th recorded access.
//
//	accesses 1..6 : keys 1..6 (first access each, absorbed by the doorkeeper)
//	access   7    : key 7 (doorkeeper)
//	access   8    : key 7 (sketch counter 1)  -> aging reset (counter 1 -> 0, marks forgotten)
//	accesses 9..12: key 7 four more times, all recorded after the reset
//
// Between that reset and the next one key 7 has 4 recorded accesses, so its
// estimate must be at least 4.
func TestDemoRunAcrossAgingReset(t *testing.T) {
	a := newTinyLFU(8)
	a.Push([]uint64{1, 2, 3, 4, 5, 6, 7, 7, 7, 7, 7, 7})
	require.Equal(t, int64(4), a.incrs, "12 accesses, reset after the 8th: 4 accesses in the current period")
	require.GreaterOrEqual(t, a.Estimate(7), int64(4),
		"key 7 was accessed 4 times since the aging reset")
	require.LessOrEqual(t, a.Estimate(7), int64(16))
}

// Feeding a history through Push in batches must be indistinguishable from
// feeding it one access at a time, wherever the reset falls in the history.
func TestDemoPushEqualsIncrementSequence(t *testing.T) {
	for _, nc := range []int64{2, 4, 8, 16, 32} {
		for runLen := 1; runLen <= 20; runLen++ {
			for lead := 0; lead < int(nc)+2; lead++ {
				a := newTinyLFU(nc)
				b := newTinyLFU(nc)
				b.freq.seed = a.freq.seed

				var hist []uint64
				for i := 0; i < lead; i++ {
					hist = append(hist, uint64(100+i))
				}
				for i := 0; i < runLen; i++ {
					hist = append(hist, 7)
				}
				hist = append(hist, 9, 9, 7)

				a.Push(hist)
				for _, k := range hist {
					b.Increment(k)
				}
				require.Equal(t, b.incrs, a.incrs, "nc=%d run=%d lead=%d", nc, runLen, lead)
				for _, k := range append([]uint64{7, 9}, hist[:lead]...) {
					require.Equal(t, b.Estimate(k), a.Estimate(k),
						"key %d nc=%d run=%d lead=%d", k, nc, runLen, lead)
				}
			}
		}
	}
}
