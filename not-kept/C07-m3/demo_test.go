// dir: .
package ristretto

// Demonstration for change m1 (the expiry sweep no longer asks the store
// whether a key filed under a completed bucket is really past its expiration).
//
// Property C07: the TTL alone never hides an item before its expiration
// instant, for every history of writes to the key and every lag of the applier
// and of the expiry sweep.
//
// History used: a SetWithTTL with a short ttl is applied late (after the sweep
// has already passed the bucket of its expiration), so its expiry-map entry is
// filed under the next bucket to be swept. The key is then re-written with a
// one hour ttl. The refreshed item must stay visible for an hour.

import (
	"sync/atomic"
	"testing"
	"time"

	"github.com/stretchr/testify/require"
)

func demoM1BucketWidth() time.Duration {
	return time.Duration(bucketDurationSecs) * time.Second
}

// Store level, fully deterministic: the late apply is modelled by handing the
// store an item whose expiration already lies a few buckets in the past.
func TestDemoM1StoreLateApplyThenLongerTTL(t *testing.T) {
	s := newShardedMap[int]()
	p := newDefaultPolicy[int](100, 10)

	const key, conflict = uint64(7), uint64(0)
	now := time.Now()

	// SetWithTTL(key, 1, ttl=1s) was called 4 buckets ago and is applied only now.
	late := &Item[int]{Key: key, Conflict: conflict, Value: 1,
		Expiration: now.Add(-4 * demoM1BucketWidth())}
	p.Add(key, 1)
	s.Set(late)

	// SetWithTTL(key, 2, ttl=1h): the store is refreshed immediately.
	_, ok := s.Update(&Item[int]{Key: key, Conflict: conflict, Value: 2,
		Expiration: time.Now().Add(time.Hour)})
	require.True(t, ok, "the refresh must find the key")

	// Let the sweep complete the bucket the late insert was filed under.
	time.Sleep(2*demoM1BucketWidth() + 100*time.Millisecond)
	var evicted []uint64
	s.Cleanup(p, func(i *Item[int]) { evicted = append(evicted, i.Key) })

	v, ok := s.Get(key, conflict)
	require.True(t, ok, "item with a 1h ttl was removed by the expiry sweep")
	require.Equal(t, 2, v)
	require.Empty(t, evicted, "the sweep evicted an item that has not expired")
	require.False(t, s.Expiration(key).IsZero())
}

// Cache level, public API only. The applier is stalled by a blocking Cost
// callback (Cost is evaluated on the applier goroutine for cost-0 items).
func TestDemoM1CacheLateApplyThenLongerTTL(t *testing.T) {
	release := make(chan struct{})
	var blocked atomic.Bool
	c, err := NewCache(&Config[int, int]{
		NumCounters:        1000,
		MaxCost:            1000,
		BufferItems:        64,
		IgnoreInternalCost: true,
		Cost: func(v int) int64 {
			if v == -1 {
				blocked.Store(true)
				<-release
			}
			return 1
		},
	})
	require.NoError(t, err)
	defer c.Close()

	// Stall the applier.
	require.True(t, c.Set(1000, -1, 0))
	require.Eventually(t, blocked.Load, 5*time.Second, time.Millisecond)

	// Fillers first, so that once the applier resumes the pending sweep tick is
	// consumed before the TTL insert is applied (select picks at random between
	// the tick and the set buffer while both are ready).
	for i := 0; i < 64; i++ {
		require.True(t, c.Set(2000+i, i, 1))
	}
	const key = 7
	require.True(t, c.SetWithTTL(key, 1, 1, 100*time.Millisecond))

	// The applier lags for more than two buckets.
	time.Sleep(2*demoM1BucketWidth() + 200*time.Millisecond)
	close(release)
	c.Wait()

	// Re-write the key with a long ttl. (If the late insert is not there any
	// more this is simply a fresh insert; retry until it is accepted.)
	for i := 0; i < 100; i++ {
		if c.SetWithTTL(key, 2, 1, time.Hour) {
			break
		}
		time.Sleep(time.Millisecond)
	}
	c.Wait()
	v, ok := c.Get(key)
	require.True(t, ok)
	require.Equal(t, 2, v)

	// Let the sweep run over the following buckets.
	deadline := time.Now().Add(3*demoM1BucketWidth() + 200*time.Millisecond)
	for time.Now().Before(deadline) {
		v, ok = c.Get(key)
		require.True(t, ok, "item with a 1h ttl disappeared long before its expiration")
		require.Equal(t, 2, v)
		ttl, ok := c.GetTTL(key)
		require.True(t, ok)
		require.LessOrEqual(t, ttl, time.Hour)
		time.Sleep(50 * time.Millisecond)
	}
}
