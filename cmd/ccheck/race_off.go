//go:build !race

package main

const raceMode = false
