package main

import (
	"bytes"
	"encoding/json"
	"fmt"
	"sort"
	"time"
	"unsafe"

	"github.com/dgraph-io/ristretto/v2/z"

	"verif/shim/vsched"
)

// C12 — z.Allocator hands out disjoint, stable, exactly sized memory, also concurrently.
//
// Preemptive part: 2-3 threads x 2-3 calls from {Allocate, AllocateAligned, Copy} on an allocator
// whose first chunk is 512 bytes, with sizes that make several threads overshoot the current
// chunk at once and requests that exceed the next chunk; every atomic operation on the packed
// index and the mutex are schedule points. Sequential part: every history over {Allocate,
// AllocateAligned, Copy, Reset, TrimTo} to a depth bound (no scheduler needed).

type allocReq struct {
	K string `json:"k"` // alloc | aligned | copy | reset | trim
	N int    `json:"n"`
}

type c12Scenario struct {
	Name    string       `json:"name"`
	Prefix  []allocReq   `json:"prefix,omitempty"` // run by the main thread (then dirtied and Reset if Dirty)
	Dirty   bool         `json:"dirty,omitempty"`
	Threads [][]allocReq `json:"threads"`
}

type allocRes struct {
	tid, idx int
	req      allocReq
	ptr      uintptr
	ln       int
	pat      byte
	data     []byte
	zeroed   bool
	copyOK   bool
}

func doAlloc(a *z.Allocator, r allocReq, pat byte) allocRes {
	res := allocRes{req: r, pat: pat, zeroed: true, copyOK: true}
	var b []byte
	switch r.K {
	case "alloc":
		b = a.Allocate(r.N)
	case "aligned":
		b = a.AllocateAligned(r.N)
		for _, x := range b {
			if x != 0 {
				res.zeroed = false
			}
		}
	case "copy":
		src := bytes.Repeat([]byte{pat ^ 0x5a}, r.N)
		b = a.Copy(src)
		res.copyOK = bytes.Equal(b, src)
	}
	res.ln = len(b)
	if len(b) > 0 {
		res.ptr = uintptr(unsafe.Pointer(&b[0]))
	}
	for i := range b {
		b[i] = pat
	}
	res.data = b
	return res
}

func checkAllocs(all []allocRes, id string) []Viol {
	var out []Viol
	for _, r := range all {
		if r.ln != r.req.N {
			out = append(out, Viol{Key: id + "/wrong-length", What: fmt.Sprintf("%s(%d) returned %d bytes", r.req.K, r.req.N, r.ln)})
		}
		if r.req.K == "aligned" {
			if r.ptr%8 != 0 {
				out = append(out, Viol{Key: id + "/not-aligned", What: fmt.Sprintf("AllocateAligned(%d) returned address %#x", r.req.N, r.ptr)})
			}
			if !r.zeroed {
				out = append(out, Viol{Key: id + "/aligned-not-zeroed", What: fmt.Sprintf("AllocateAligned(%d) returned memory that is not zero", r.req.N)})
			}
		}
		if !r.copyOK {
			out = append(out, Viol{Key: id + "/copy-differs", What: fmt.Sprintf("Copy of %d bytes returned different contents", r.req.N)})
		}
		for _, x := range r.data {
			if x != r.pat {
				out = append(out, Viol{Key: id + "/overwritten", What: fmt.Sprintf("the %d bytes handed out by %s(%d) to thread %d were overwritten by a later allocation", r.ln, r.req.K, r.req.N, r.tid)})
				break
			}
		}
	}
	s := append([]allocRes(nil), all...)
	sort.Slice(s, func(i, j int) bool { return s[i].ptr < s[j].ptr })
	for i := 0; i+1 < len(s); i++ {
		if s[i].ln > 0 && s[i+1].ln > 0 && s[i].ptr+uintptr(s[i].ln) > s[i+1].ptr {
			out = append(out, Viol{Key: id + "/overlap", What: fmt.Sprintf("%s(%d) of thread %d and %s(%d) of thread %d overlap: [%#x,+%d) and [%#x,+%d)", s[i].req.K, s[i].req.N, s[i].tid, s[i+1].req.K, s[i+1].req.N, s[i+1].tid, s[i].ptr, s[i].ln, s[i+1].ptr, s[i+1].ln)})
		}
	}
	return out
}

func c12Body(sc *c12Scenario, out *[]Viol) func() {
	return func() {
		a := z.NewAllocator(512, "verif")
		defer a.Release()
		if len(sc.Prefix) > 0 {
			for i, r := range sc.Prefix {
				doAlloc(a, r, byte(0xE0+i))
			}
			if sc.Dirty {
				a.Reset()
			}
		}
		results := make([][]allocRes, len(sc.Threads))
		var ids []int
		for ti, prog := range sc.Threads {
			ti, prog := ti, prog
			results[ti] = make([]allocRes, 0, len(prog))
			ids = append(ids, vsched.Spawn(fmt.Sprintf("alloc%d", ti), func() {
				for i, r := range prog {
					res := doAlloc(a, r, byte(16*(ti+1)+i+1))
					res.tid, res.idx = ti, i
					if !raceMode {
						results[ti] = append(results[ti], res)
					}
				}
			}))
		}
		vsched.Join(ids...)
		if raceMode {
			return
		}
		var all []allocRes
		for _, rs := range results {
			all = append(all, rs...)
		}
		*out = checkAllocs(all, "C12")
		// outcome label: the order in which the results lie in memory (distinct layouts = distinct
		// ways the threads' requests were interleaved and split over chunks)
		s := append([]allocRes(nil), all...)
		sort.Slice(s, func(i, j int) bool { return s[i].ptr < s[j].ptr })
		layout = ""
		lens, _, _ := z.VerifAllocator(a)
		for _, r := range s {
			layout += fmt.Sprintf("%d.%d ", r.tid, r.idx)
		}
		nch := 0
		for _, l := range lens {
			if l > 0 {
				nch++
			}
		}
		layout += fmt.Sprintf("chunks=%d", nch)
	}
}

var layout string

func c12Custom(j *Job) *JobResult {
	p := props["C12"]
	if j.Mode == "c12seq" {
		return c12Sequential(j)
	}
	var sc c12Scenario
	if err := json.Unmarshal([]byte(j.Aux), &sc); err != nil {
		return &JobResult{Name: "c12", Err: err.Error()}
	}
	var viols []Viol
	layout = ""
	body := c12Body(&sc, &viols)
	oracle := func(r *vsched.Result) []Viol { return viols }
	res := exploreBody(p, j, body, oracle, func(r *vsched.Result) string { return layout })
	res.Name = sc.Name
	if j.Race {
		res.Name += " [race]"
	}
	return res
}

// ----- sequential histories ---------------------------------------------------------------------------

func c12Sequential(j *Job) *JobResult {
	res := &JobResult{Name: "seq/" + j.Aux, Outcomes: map[string]int64{}, Complete: true}
	depth := 5
	if j.Tier == "thorough" {
		depth = 7
	}
	alpha := []allocReq{{"alloc", 200}, {"alloc", 513}, {"aligned", 300}, {"copy", 100}, {"alloc", 1100}, {"reset", 0}, {"trim", 4096}}
	seen := map[string]bool{}
	var rec func(hist []allocReq)
	run := func(hist []allocReq) (key string, viols []Viol) {
		defer func() {
			if r := recover(); r != nil {
				viols = append(viols, Viol{Key: "C12/panic", What: fmt.Sprint("panic: ", r)})
			}
		}()
		a := z.NewAllocator(512, "verif")
		defer a.Release()
		var live []allocRes   // since the last Reset
		var sinceReset []allocReq
		trimmed := false
		hiB, hiP := 0, 0
		for i, r := range hist {
			switch r.K {
			case "reset":
				viols = append(viols, checkAllocs(live, "C12")...)
				// replaying the same requests after Reset must not acquire more memory
				if !trimmed && len(sinceReset) > 0 {
					before := a.Allocated()
					a.Reset()
					for k, q := range sinceReset {
						doAlloc(a, q, byte(0x80+k))
					}
					if after := a.Allocated(); after != before {
						viols = append(viols, Viol{Key: "C12/replay-after-reset-acquires-memory", What: fmt.Sprintf("after Reset, replaying the same %d requests grew Allocated() from %d to %d", len(sinceReset), before, after)})
					}
				}
				a.Reset()
				live, sinceReset, trimmed = nil, nil, false
			case "trim":
				a.TrimTo(r.N)
				trimmed = true
			default:
				x := doAlloc(a, r, byte(i+1))
				x.idx = i
				live = append(live, x)
				sinceReset = append(sinceReset, r)
				// how far any epoch has dirtied the chunks: memory behind the cursor is part of
				// the state (AllocateAligned must hand out zeroed memory after a Reset)
				if _, b, p := z.VerifAllocator(a); b > hiB || (b == hiB && p > hiP) {
					hiB, hiP = b, p
				}
			}
		}
		viols = append(viols, checkAllocs(live, "C12")...)
		lens, bi, pi := z.VerifAllocator(a)
		return fmt.Sprint(lens, bi, pi, len(live), len(sinceReset), trimmed, hiB, hiP, z.VerifAllocatorExtraFP(a)), viols
	}
	runT := func(h []allocReq) (string, []Viol, bool) {
		type out struct {
			k string
			v []Viol
		}
		ch := make(chan out, 1)
		go func() { k, v := run(h); ch <- out{k, v} }()
		select {
		case o := <-ch:
			return o.k, o.v, false
		case <-time.After(10 * time.Second):
			b, _ := json.Marshal(h)
			return "", []Viol{{Key: "C12/call-does-not-return", What: "an allocator call did not return within 10s; history: " + string(b)}}, true
		}
	}
	hung := false
	var prefixLen int
	rec = func(hist []allocReq) {
		for _, r := range alpha {
			if hung {
				return
			}
			// TrimTo is only ever followed by Reset (as AllocatorPool does); allocating from a
			// trimmed allocator without Reset is outside the property
			if len(hist) > 0 && hist[len(hist)-1].K == "trim" && r.K != "reset" {
				continue
			}
			h := append(append([]allocReq(nil), hist...), r)
			key, viols, h2 := runT(h)
			hung = hung || h2
			res.Execs++
			res.Points++
			if len(viols) > 0 {
				res.ViolCount += int64(len(viols))
				if len(res.Viols) == 0 {
					b, _ := json.Marshal(h)
					res.Viols = append(res.Viols, ViolReport{Viol: Viol{Key: viols[0].Key, What: viols[0].What + "   history: " + string(b)}, Stable: true, SeqName: string(b)})
				}
				continue
			}
			key += fmt.Sprint(len(h))
			if seen[key] && len(h)-prefixLen > 3 {
				continue
			}
			seen[key] = true
			res.States++
			if len(h)-prefixLen < depth {
				rec(h)
			}
			if len(h) > res.MaxDepth {
				res.MaxDepth = len(h)
			}
		}
	}
	// every suffix to the depth bound, from the fresh allocator AND from allocators that have
	// already grown over several chunks of different shapes and were Reset (requests that
	// straddle a chunk end and exceed the NEXT EXISTING chunk then skip chunks)
	G := func(ns ...int) []allocReq {
		var out []allocReq
		for _, n := range ns {
			out = append(out, allocReq{"alloc", n})
		}
		return out
	}
	prefixes := [][]allocReq{nil,
		append(G(200, 200, 200, 513, 513), allocReq{"reset", 0}),             // chunks 512, 1024, 2048
		append(G(200, 200, 200, 513, 513, 1100, 1100), allocReq{"reset", 0}), // + 4096
		append(G(1100, 1100, 1100), allocReq{"reset", 0}),                    // chunks 512, 2048, 4096
		G(200, 200, 200, 513), // grown, not reset
	}
	for _, pf := range prefixes {
		prefixLen = len(pf)
		if _, v, _ := runT(pf); len(v) > 0 && len(pf) > 0 {
			b, _ := json.Marshal(pf)
			res.ViolCount++
			if len(res.Viols) == 0 {
				res.Viols = append(res.Viols, ViolReport{Viol: Viol{Key: v[0].Key, What: v[0].What + "   history: " + string(b)}, Stable: true, SeqName: string(b)})
			}
			continue
		}
		rec(pf)
	}
	if hung {
		res.Complete, res.CapHit = false, "stopped at a call that does not return"
		vsched.Stuck = true
	}
	res.Outcomes[fmt.Sprintf("states=%d", res.States)] = 1
	res.Outcomes["ok"] = res.Execs
	res.Sample = []string{"alloc(200) alloc(513) aligned(300) reset alloc(1100) trim(4096)"}
	return res
}

func c12Jobs(tier string) []Job {
	var jobs []Job
	add := func(sc c12Scenario, bound, rbound int) {
		b, _ := json.Marshal(sc)
		jobs = append(jobs, Job{Aux: string(b), Bound: bound})
		jobs = append(jobs, Job{Aux: string(b), Bound: rbound, Race: true})
	}
	// the code is ~6 schedule points per call: the preemption bound can be effectively unbounded
	bound, rbound := 8, 3
	if tier == "thorough" {
		bound, rbound = 99, 6
	}
	A := func(n int) allocReq { return allocReq{"alloc", n} }
	AL := func(n int) allocReq { return allocReq{"aligned", n} }
	CP := func(n int) allocReq { return allocReq{"copy", n} }
	// thread programs: sizes chosen so that several threads overshoot the 512-byte chunk at
	// once, requests exceed the next chunk (1100 > 1024), and exact fits (512) occur
	progs := [][]allocReq{{A(300), A(300)}, {A(300), A(200)}, {A(300), A(513)}, {A(512), A(1)}, {A(513), A(200)}, {A(1100), A(200)},
		{AL(300), A(200)}, {CP(300), AL(200)}, {CP(513), A(300)}, {AL(505), A(300)}}
	for i := range progs {
		for k := i; k < len(progs); k++ {
			add(c12Scenario{Name: fmt.Sprintf("dfs/2threads/%d-%d", i, k), Threads: [][]allocReq{progs[i], progs[k]}}, bound, rbound)
		}
	}
	// dirty memory + Reset before: AllocateAligned must hand out zeroed memory
	add(c12Scenario{Name: "dfs/2threads/dirty-reset", Prefix: []allocReq{A(300), A(300), A(600)}, Dirty: true, Threads: [][]allocReq{{AL(300), AL(200)}, {AL(250), A(300)}}}, bound, rbound)
	add(c12Scenario{Name: "dfs/2threads/3calls", Threads: [][]allocReq{{A(300), A(300), A(513)}, {A(200), A(1100), AL(300)}}}, bound, rbound)
	// three threads overshooting the same chunk at once
	add(c12Scenario{Name: "dfs/3threads/overshoot", Threads: [][]allocReq{{A(300)}, {A(300)}, {A(300)}}}, bound, rbound)
	add(c12Scenario{Name: "dfs/3threads/overshoot-big", Threads: [][]allocReq{{A(300)}, {A(1100)}, {A(513)}}}, bound, rbound)
	add(c12Scenario{Name: "dfs/3threads/mixed", Threads: [][]allocReq{{A(300), A(200)}, {A(513)}, {AL(300)}}}, bound, rbound)
	add(c12Scenario{Name: "dfs/3threads/2x2x2", Threads: [][]allocReq{{A(300), A(300)}, {A(300), A(1100)}, {CP(200), A(513)}}}, min(bound, 4), 2)
	if tier == "thorough" {
		add(c12Scenario{Name: "dfs/4threads/overshoot", Threads: [][]allocReq{{A(300)}, {A(300)}, {A(300)}, {A(600)}}}, 99, 4)
		add(c12Scenario{Name: "dfs/3threads/3x3x3", Threads: [][]allocReq{{A(300), A(300), A(200)}, {A(300), A(1100), A(100)}, {CP(200), A(513), AL(64)}}}, 4, 2)
	}
	jobs = append(jobs, Job{Mode: "c12seq", Aux: "histories", Bound: -1})
	return jobs
}

func init() {
	registerProp(&Prop{ID: "C12", Level: "model_checking",
		Rule: "stateless DFS over all schedules within the preemption bound of 2-3 threads x 1-2 calls from {Allocate, AllocateAligned, Copy} on a real z.Allocator with a 512-byte first chunk (every atomic operation on the packed index and the mutex are schedule points), normal build + race-detector build; " +
			"+ every sequential history over {Allocate 200/513/1100, AllocateAligned 300, Copy 100, Reset, TrimTo 4096} to the depth bound; " +
			"oracle: exact lengths, pairwise disjoint address ranges since the last Reset, each thread's fill pattern intact at the end, aligned results 8-byte aligned and zero (also after Reset over dirty memory), Copy equal, replay after Reset does not grow Allocated()",
		Assume: []string{"sizes well below the 32-bit offset field; TrimTo only with a limit above the first chunk (TrimTo at or below it makes the next Allocate loop forever; C12 states nothing about TrimTo itself)"},
		Jobs:   c12Jobs,
		Custom: c12Custom,
		Oracle: func(x *Exec, res *vsched.Result, job *Job) []Viol { return nil },
	})
}
