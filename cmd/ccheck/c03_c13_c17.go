package main

import (
	"fmt"
	"math"
	"sort"

	ristretto "github.com/dgraph-io/ristretto/v2"

	"verif/shim/vsched"
)

// C03 — admissions never push the accounted cost above MaxCost.
// C13 — the map, the capacity accounting and IterValues agree on what is resident.
// C17 — metrics obey conservation laws.
// All three: sequential driver, explicit-state search over histories with every applier lag,
// every order of the sampling map (rotations), tiny capacities so that admission, rejection and
// eviction are a few operations away.

func allIdle(s string) bool {
	for _, c := range s {
		if c != 'i' {
			return false
		}
	}
	return true
}

func sumCosts(d *SDump) int64 {
	var s int64
	for _, c := range d.Costs {
		s += c.Cost
	}
	return s
}

// ----- C03 ------------------------------------------------------------------------------------------------

func c03Taint(evs []vsched.Event) bool {
	// a cost-raising update of an accounted key, or a lowering of MaxCost, ends the
	// "RemainingCost >= 0 when drained" guarantee for the rest of the history
	for _, e := range evs {
		if e.Kind == evCost && e.B >= 0 && e.C > e.B {
			return true
		}
	}
	return false
}

func c03Oracle(r *SeqRun) []Viol {
	var out []Viol
	post := r.Post
	if s := sumCosts(post); s != post.Used {
		out = append(out, Viol{Key: "C03/used-differs-from-sum-of-costs", What: fmt.Sprintf("accounted total %d but the per-key costs sum to %d", post.Used, s)})
	}
	if rem, ok := r.Probe["remaining"]; ok {
		if want := r.Probe["maxcost"] - sumCosts(post); rem != want {
			out = append(out, Viol{Key: "C03/remainingcost-not-maxcost-minus-costs", What: fmt.Sprintf("RemainingCost()=%d but MaxCost()=%d minus the accounted costs %d is %d", rem, r.Probe["maxcost"], sumCosts(post), want)})
		}
	}
	// an applier step that admitted a key
	n := len(r.Hist)
	if n > 0 && r.Hist[n-1].K == "applier" {
		pre := map[uint64]int64{}
		for _, c := range r.Pre.Costs {
			pre[c.Key] = c.Cost
		}
		for _, c := range post.Costs {
			if _, had := pre[c.Key]; !had {
				if post.Used > post.MaxCost {
					out = append(out, Viol{Key: "C03/admission-exceeds-maxcost", What: fmt.Sprintf("admitting key %d (cost %d) left the accounted total at %d > MaxCost %d", c.Key, c.Cost, post.Used, post.MaxCost)})
				}
				if c.Cost > r.Pre.MaxCost {
					out = append(out, Viol{Key: "C03/item-larger-than-cache-admitted", What: fmt.Sprintf("key %d with cost %d was admitted although MaxCost is %d", c.Key, c.Cost, r.Pre.MaxCost)})
				}
			}
		}
	}
	if allIdle(post.ClientState) && len(post.SetBufItems) == 0 {
		// RemainingCost() is MaxCost minus the costs accounted for the RESIDENT keys: a key that
		// is stored but no longer accounted makes the reported room a fiction
		acc := map[uint64]bool{}
		for _, c := range post.Costs {
			acc[c.Key] = true
		}
		for _, e := range post.Store {
			if !acc[e.Key] {
				out = append(out, Viol{Key: "C03/resident-key-not-accounted", What: fmt.Sprintf("key %d (value %d) is resident but its cost is not accounted: RemainingCost() overstates the room", e.Key, e.Value)})
			}
		}
		// ... and the converse: capacity charged for a key that is not resident (with a non-zero
		// cost, so that RemainingCost() really differs from MaxCost minus the residents' costs)
		stored := map[uint64]bool{}
		for _, e := range post.Store {
			stored[e.Key] = true
		}
		for _, c := range post.Costs {
			if !stored[c.Key] && c.Cost != 0 {
				out = append(out, Viol{Key: "C03/cost-accounted-for-absent-key", What: fmt.Sprintf("key %d is charged %d but is not resident: RemainingCost() understates the room", c.Key, c.Cost)})
			}
		}
	}
	if !c03Taint(r.Events) && allIdle(post.ClientState) && len(post.SetBufItems) == 0 {
		if rem, ok := r.Probe["remaining"]; ok && rem < 0 {
			out = append(out, Viol{Key: "C03/negative-remaining-cost-when-drained", What: fmt.Sprintf("RemainingCost()=%d with the write buffer drained, although no overwrite raised a resident key's cost and MaxCost was not lowered", rem)})
		}
	}
	return out
}

// taintOf: did some applied update raise the cost of an accounted key? (computed incrementally:
// the search carries it in the abstraction; here it is recomputed from the log of cost changes)
func c03Spec(maxCost int64, internal bool, costFn bool, keys []int, depth int) *SeqSpec {
	scale := int64(1)
	if internal {
		scale = int64(ristretto.VerifItemSize) + 1
	}
	costs := []int64{1, 2, maxCost, maxCost + 1}
	var alpha []Op
	for _, k := range keys {
		for _, c := range costs {
			cc := c
			if internal {
				cc = c*scale - int64(ristretto.VerifItemSize) // so that cost+itemSize == c*scale
			}
			alpha = append(alpha, Op{K: "set", Key: k, Cost: cc})
		}
		if costFn {
			alpha = append(alpha, Op{K: "set", Key: k, Cost: 0})
		}
		alpha = append(alpha, Op{K: "del", Key: k}, Op{K: "get", Key: k})
	}
	alpha = append(alpha, Op{K: "wait"}, Op{K: "drain"}, Op{K: "updmax", N: -2})
	spec := &SeqSpec{
		Cfg:      Cfg{NumCounters: 16, MaxCost: maxCost * scale, BufferItems: 1, SetBuf: 3, InternalCost: internal, CostFn: costFn, MapOrder: "rot"},
		MaxDepth: depth,
		Oracle:   c03Oracle,
	}
	if costFn {
		// "costs ... via Config.Cost": an item given with cost 0 is charged what the cost function
		// says about THE VALUE THAT WAS SET (v%3+1 in this harness), plus the internal cost if on
		spec.Oracle = func(r *SeqRun) []Viol {
			out := c03Oracle(r)
			given := map[int64]int64{}
			for _, h := range r.Hist {
				if h.K == "op" && h.Op != nil && (h.Op.K == "set" || h.Op.K == "setttl") {
					given[h.Op.Val] = h.Op.Cost
				}
			}
			// which Set put each buffered item there: by ORDER (the value carried by the item is what
			// the implementation makes of it, and is not trusted here)
			var q []int64
			var cur, head int64 = -1, -1
			for i := range r.Events {
				e := &r.Events[i]
				switch e.Kind {
				case evSetCall:
					cur = e.B
				case evDelCall, evWaitCall, evGetCall, evGetTTLCall:
					cur = -1
				case evClearRet:
					q = nil
				case evEnq:
					if e.C == 0 || e.C == 2 {
						q = append(q, cur)
					} else {
						q = append(q, -1)
					}
				case evApplied:
					head = -1
					if len(q) > 0 {
						head, q = q[0], q[1:]
					}
				case evItemCost:
					if c, ok := given[head]; ok && head > 0 && c == 0 {
						want := head%3 + 1
						if internal {
							want += int64(ristretto.VerifItemSize)
						}
						if e.B != want {
							out = append(out, Viol{Key: "C03/item-cost-differs-from-config-cost", What: fmt.Sprintf("value %d of key %d was set with cost 0: Config.Cost says %d (internal cost included), the applier charged %d", head, e.A, want, e.B)})
						}
					}
					head = -1
				}
			}
			return out
		}
	}
	spec.Alphabet = func(r *SeqRun) []Op {
		// UpdateMaxCost(+2): relative to the current value
		out := append([]Op(nil), alpha...)
		cur := maxCost * scale
		if r != nil && r.Post != nil {
			cur = r.Post.MaxCost
		}
		out[len(out)-1] = Op{K: "updmax", N: cur + 2*scale}
		if cur >= (maxCost+4)*scale {
			out = out[:len(out)-1] // raise at most twice
		}
		return out
	}
	spec.Probe = func(c seqCache, r *SeqRun) {
		r.Probe["remaining"] = c.Remaining()
		r.Probe["maxcost"] = c.MaxCost()
	}
	spec.Abstract = func(r *SeqRun, ren func(int64) int64) string {
		out := fmt.Sprint(c03Taint(r.Events))
		if costFn {
			// the cost oracle remembers which pending / resident values were given with cost 0:
			// part of the state (a cost-0 Set and an explicit-cost Set can reach equal cache states)
			given := map[int64]int64{}
			for _, h := range r.Hist {
				if h.K == "op" && h.Op != nil && (h.Op.K == "set" || h.Op.K == "setttl") {
					given[h.Op.Val] = h.Op.Cost
				}
			}
			var zs []int64
			for _, e := range r.Post.Store {
				if c, ok := given[e.Value]; ok && c == 0 {
					zs = append(zs, ren(e.Value))
				}
			}
			for _, it := range r.Post.SetBufItems {
				if v, _ := it.Value.(int64); v != 0 {
					if c, ok := given[v]; ok && c == 0 {
						zs = append(zs, ren(v))
					}
				}
			}
			sort.Slice(zs, func(i, j int) bool { return zs[i] < zs[j] })
			out += fmt.Sprint(zs)
		}
		return out
	}
	return spec
}

// c03LeanSpec: a five-operation alphabet (new keys of cost 1, one key of cost 2 = the whole
// capacity, overwrites of residents at unchanged cost, drain) so that the search reaches depth 7-9:
// admissions that need several victims (duplicates in the eviction sample), and overwrites of a
// resident key buffered behind the new item that evicts it.
func c03LeanSpec(depth int, maxCost int64) *SeqSpec {
	alpha := []Op{{K: "set", Key: 1, Cost: 1}, {K: "set", Key: 2, Cost: 1}, {K: "set", Key: 3, Cost: 1}, {K: "set", Key: 3, Cost: 2}, {K: "drain"}}
	if maxCost == 3 {
		// three unit-cost residents and a newcomer as large as the cache: three evictions, so the
		// refilled sample holds duplicates and already-evicted keys
		alpha = []Op{{K: "set", Key: 1, Cost: 1}, {K: "set", Key: 2, Cost: 1}, {K: "set", Key: 3, Cost: 1}, {K: "set", Key: 4, Cost: 3}, {K: "drain"}}
	}
	spec := &SeqSpec{
		Cfg:      Cfg{NumCounters: 16, MaxCost: maxCost, BufferItems: 1, SetBuf: 4, MapOrder: "perm"},
		MaxDepth: depth,
		Oracle:   c03Oracle,
		Alphabet: func(r *SeqRun) []Op { return alpha },
		Abstract: func(r *SeqRun, ren func(int64) int64) string { return fmt.Sprint(c03Taint(r.Events)) },
		Probe: func(c seqCache, r *SeqRun) {
			r.Probe["remaining"] = c.Remaining()
			r.Probe["maxcost"] = c.MaxCost()
		},
	}
	return spec
}

// c03FromC13 reuses a C13 specification (alphabet, configuration) under the C03 oracle.
func c03FromC13(s *SeqSpec) *SeqSpec {
	s.Oracle = c03Oracle
	s.Abstract = func(r *SeqRun, ren func(int64) int64) string { return fmt.Sprint(c03Taint(r.Events)) }
	s.Probe = func(c seqCache, r *SeqRun) {
		r.Probe["remaining"] = c.Remaining()
		r.Probe["maxcost"] = c.MaxCost()
	}
	return s
}

// c03Jobs: preemptive part — the expiry sweep racing an overwrite of the expiring key, judged at
// the drained state after the epilogue's Wait.
func c03Jobs(tier string) []Job {
	bound := 3
	if tier == "thorough" {
		bound = 4
	}
	cfg := Cfg{NumCounters: 16, MaxCost: 3, BufferItems: 2, SetBuf: 3, TTLTick: 2, BucketSecs: 1}
	sttl := func(k int, ms int64) Op { return Op{K: "setttl", Key: k, Cost: 1, TTL: ms} }
	setup := []Op{sttl(1, 1000), {K: "set", Key: 257, Cost: 1}, {K: "wait"}, {K: "advance", N: 3000}}
	var jobs []Job
	for i, w := range [][]Op{{{K: "set", Key: 1, Cost: 1}}, {sttl(1, 10000)}, {{K: "set", Key: 1, Cost: 1}, {K: "set", Key: 2, Cost: 1}}} {
		sc := &Scenario{Name: fmt.Sprintf("dfs/sweep|overwrite%d", i), Cfg: cfg, Setup: cp(setup), Threads: [][]Op{{{K: "tick"}}, cp(w)}, Epilogue: []Op{{K: "wait"}, {K: "remaining"}}}
		jobs = append(jobs, Job{Scenario: sc, Bound: bound})
	}
	return jobs
}

func c03DFSOracle(x *Exec, res *vsched.Result, job *Job) []Viol {
	d := x.AfterEpi
	if d == nil || d.SetBuf != 0 {
		return nil
	}
	var out []Viol
	var sum int64
	acc := map[uint64]bool{}
	for _, c := range d.Costs {
		sum += c.Cost
		acc[c.Key] = true
	}
	if sum != d.Used {
		out = append(out, Viol{Key: "C03/used-differs-from-sum-of-costs", What: fmt.Sprintf("accounted total %d but the per-key costs sum to %d", d.Used, sum)})
	}
	for _, e := range d.Store {
		if !acc[e.Key] {
			out = append(out, Viol{Key: "C03/resident-key-not-accounted", What: fmt.Sprintf("after the final Wait key %d (value %d) is resident but its cost is not accounted", e.Key, e.Value)})
		}
	}
	for _, e := range res.Events {
		if e.Kind == evRemaining && e.A != d.MaxCost-sum {
			out = append(out, Viol{Key: "C03/remainingcost-not-maxcost-minus-costs", What: fmt.Sprintf("RemainingCost()=%d but MaxCost %d minus the accounted costs %d is %d", e.A, d.MaxCost, sum, d.MaxCost-sum)})
		}
	}
	return out
}

// c03HugeSpec: "every MaxCost": the unbounded setting MaxInt64 with items of cost 2^62 - two of them
// already exceed the capacity, and used+cost overflows int64.
func c03HugeSpec(depth int) *SeqSpec {
	const big = int64(1) << 62
	alpha := []Op{{K: "set", Key: 1, Cost: big}, {K: "set", Key: 2, Cost: big}, {K: "set", Key: 3, Cost: big - 1}, {K: "del", Key: 1}, {K: "drain"}}
	return &SeqSpec{
		Cfg:      Cfg{NumCounters: 16, MaxCost: math.MaxInt64, BufferItems: 1, SetBuf: 3, MapOrder: "rot"},
		MaxDepth: depth,
		Alphabet: func(r *SeqRun) []Op { return alpha },
		Abstract: func(r *SeqRun, ren func(int64) int64) string { return "" },
		Probe: func(c seqCache, r *SeqRun) {
			r.Probe["remaining"] = c.Remaining()
			r.Probe["maxcost"] = c.MaxCost()
		},
		Oracle: func(r *SeqRun) []Viol {
			var out []Viol
			// exact arithmetic: the accounted costs must fit in MaxCost
			room := uint64(math.MaxInt64)
			for _, c := range r.Post.Costs {
				if uint64(c.Cost) > room {
					out = append(out, Viol{Key: "C03/admission-exceeds-maxcost", What: fmt.Sprintf("%d keys with costs %v are accounted: more than MaxCost = MaxInt64", len(r.Post.Costs), r.Post.Costs)})
					break
				}
				room -= uint64(c.Cost)
			}
			if rem, ok := r.Probe["remaining"]; ok && rem < 0 && allIdle(r.Post.ClientState) && len(r.Post.SetBufItems) == 0 {
				out = append(out, Viol{Key: "C03/negative-remaining-cost-when-drained", What: fmt.Sprintf("RemainingCost()=%d with MaxCost = MaxInt64 and costs %v", rem, r.Post.Costs)})
			}
			return out
		},
	}
}

func c03Seq(tier string) []SeqJob {
	var out []SeqJob
	add := func(name string, s *SeqSpec, secs float64) {
		out = append(out, SeqJob{Name: name, Spec: s, Seconds: secs})
	}
	if tier == "quick" {
		add("seq/maxint64/costs2^62/depth6", c03HugeSpec(6), 40)
	} else {
		add("seq/maxint64/costs2^62/depth9", c03HugeSpec(9), 560)
	}
	if tier == "quick" {
		add("seq/unequal-costs+gets/max2/depth7", c03FromC13(c13EvictSpec(7)), 40)
		add("seq/lean/max2/3keys/depth7", c03LeanSpec(7, 2), 40)
		add("seq/lean/max3/4keys/depth7", c03LeanSpec(7, 3), 40)
		add("seq/zero-costs/max2/depth8", c03FromC13(c13ZeroCostSpec(8)), 40)
	} else {
		add("seq/zero-costs/max2/depth10", c03FromC13(c13ZeroCostSpec(10)), 560)
		add("seq/unequal-costs+gets/max2/depth10", c03FromC13(c13EvictSpec(10)), 560)
		add("seq/lean/max2/3keys/depth10", c03LeanSpec(10, 2), 560)
		add("seq/lean/max3/4keys/depth10", c03LeanSpec(10, 3), 560)
	}
	if tier == "quick" {
		add("seq/max3/2keys/depth4", c03Spec(3, false, false, []int{1, 2}, 4), 40)
		add("seq/max3/3keys/depth4", c03Spec(3, false, false, []int{1, 2, 3}, 4), 40)
		add("seq/max4/costfn/2keys/depth4", c03Spec(4, false, true, []int{1, 2}, 4), 40)
		add("seq/max3/internal-cost/2keys/depth4", c03Spec(3, true, false, []int{1, 2}, 4), 40)
	} else {
		add("seq/max3/2keys/depth8", c03Spec(3, false, false, []int{1, 2}, 8), 560)
		add("seq/max3/3keys/depth7", c03Spec(3, false, false, []int{1, 2, 3}, 7), 560)
		add("seq/max4/4keys/depth6", c03Spec(4, false, false, []int{1, 2, 3, 4}, 6), 560)
		add("seq/max4/costfn/3keys/depth6", c03Spec(4, false, true, []int{1, 2, 3}, 6), 560)
		add("seq/max3/internal-cost/3keys/depth6", c03Spec(3, true, false, []int{1, 2, 3}, 6), 560)
		add("seq/max4/internal-cost/costfn/2keys/depth7", c03Spec(4, true, true, []int{1, 2}, 7), 560)
	}
	return out
}

// ----- C13 ------------------------------------------------------------------------------------------------

func c13Oracle(r *SeqRun) []Viol {
	var out []Viol
	d := r.Post
	if !(allIdle(d.ClientState) && len(d.SetBufItems) == 0) {
		return nil // only quiescent points are judged
	}
	store := map[uint64]ristretto.VerifEntry[int64]{}
	for _, e := range d.Store {
		store[e.Key] = e
	}
	acc := map[uint64]bool{}
	for _, c := range d.Costs {
		acc[c.Key] = true
		if _, ok := store[c.Key]; !ok {
			out = append(out, Viol{Key: "C13/capacity-held-by-absent-entry", What: fmt.Sprintf("the accounting charges cost %d for key %d, which the map does not hold", c.Cost, c.Key)})
		}
	}
	for k, e := range store {
		if !acc[k] {
			out = append(out, Viol{Key: "C13/stored-entry-not-accounted", What: fmt.Sprintf("the map holds key %d (value %d) but the accounting does not charge for it: it can never be evicted", k, e.Value)})
		}
	}
	// IterValues visits exactly the unexpired stored values, each once
	var want []int64
	for _, e := range d.Store {
		if e.Expiration.IsZero() || !(d.ClockNs > e.Expiration.Sub(vtimeBase()).Nanoseconds()) {
			want = append(want, e.Value)
		}
	}
	sort.Slice(want, func(i, j int) bool { return want[i] < want[j] })
	got := append([]int64(nil), r.IterAll...)
	sort.Slice(got, func(i, j int) bool { return got[i] < got[j] })
	if fmt.Sprint(got) != fmt.Sprint(want) {
		out = append(out, Viol{Key: "C13/itervalues-differs-from-unexpired-entries", What: fmt.Sprintf("IterValues visited %v but the unexpired stored values are %v", got, want)})
	}
	for i, n := range r.IterStop {
		if n != i+1 {
			out = append(out, Viol{Key: "C13/itervalues-ignores-stop", What: fmt.Sprintf("a callback that asked to stop at visit %d saw %d visits (of %d values)", i+1, n, len(want))})
		}
	}
	if len(d.Store) == 0 {
		if rem, mc := r.Probe["remaining"], r.Probe["maxcost"]; rem != mc {
			out = append(out, Viol{Key: "C13/capacity-not-restored-when-empty", What: fmt.Sprintf("nothing is stored but RemainingCost()=%d differs from MaxCost()=%d", rem, mc)})
		}
		if len(r.IterAll) != 0 {
			out = append(out, Viol{Key: "C13/enumerates-after-empty", What: fmt.Sprintf("nothing is stored but IterValues visited %v", r.IterAll)})
		}
	}
	return out
}

func iterProbe(c seqCache, r *SeqRun) {
	r.Probe["remaining"] = c.Remaining()
	r.Probe["maxcost"] = c.MaxCost()
	r.IterAll = nil
	c.Iter(func(v int64) bool { r.IterAll = append(r.IterAll, v); return false })
	r.IterStop = nil
	for i := 1; i <= len(r.IterAll); i++ {
		n := 0
		c.Iter(func(v int64) bool { n++; return n >= i })
		r.IterStop = append(r.IterStop, n)
	}
}

func c13Spec(sb int, maxCost int64, keys []int, depth int, clear bool) *SeqSpec {
	var alpha []Op
	for _, k := range keys {
		alpha = append(alpha, Op{K: "set", Key: k, Cost: 1}, Op{K: "del", Key: k}, Op{K: "setttl", Key: k, Cost: 1, TTL: 1000})
	}
	alpha = append(alpha, Op{K: "wait"}, Op{K: "drain"}, Op{K: "advance", N: 3000}, Op{K: "tick"})
	if clear {
		alpha = append(alpha, Op{K: "clear"})
	}
	return &SeqSpec{
		Cfg:      Cfg{NumCounters: 16, MaxCost: maxCost, BufferItems: 2, SetBuf: sb, TTLTick: 2, BucketSecs: 1, MapOrder: "rot"},
		MaxDepth: depth,
		Alphabet: func(r *SeqRun) []Op { return alpha },
		Oracle:   c13Oracle,
		Probe: func(c seqCache, r *SeqRun) {
			if allIdle(r.Post.ClientState) && len(r.Post.SetBufItems) == 0 {
				iterProbe(c, r)
			}
		},
	}
}

// c13EvictSpec: unequal costs and real Gets (BufferItems 1, policy-goroutine steps) so that one
// admission needs several evictions and can still end in a rejection after some victims were
// already taken out of the accounting.
func c13EvictSpec(depth int) *SeqSpec {
	alpha := []Op{{K: "set", Key: 1, Cost: 1}, {K: "set", Key: 257, Cost: 1}, {K: "set", Key: 2, Cost: 2}, {K: "get", Key: 257}, {K: "drain"}, {K: "del", Key: 1}, {K: "get", Key: 2}}
	return &SeqSpec{
		Cfg:      Cfg{NumCounters: 16, MaxCost: 2, BufferItems: 1, SetBuf: 3, MapOrder: "rot"},
		MaxDepth: depth,
		Alphabet: func(r *SeqRun) []Op { return alpha },
		Oracle:   c13Oracle,
		Probe: func(c seqCache, r *SeqRun) {
			if allIdle(r.Post.ClientState) && len(r.Post.SetBufItems) == 0 {
				iterProbe(c, r)
			}
		},
	}
}

// c13ZeroCostSpec: entries whose accounted cost is exactly 0 (no internal cost, no Cost function,
// cost 0 given) next to one entry as large as the cache: "arbitrary non-negative costs". A zero
// must not be mistaken for "absent" anywhere in the accounting.
func c13ZeroCostSpec(depth int) *SeqSpec {
	alpha := []Op{{K: "set", Key: 1, Cost: 0}, {K: "set", Key: 1, Cost: 1}, {K: "set", Key: 2, Cost: 2}, {K: "del", Key: 1}, {K: "drain"},
		{K: "setttl", Key: 257, Cost: 0, TTL: 1000}, {K: "advance+sweep", N: 3000}}
	return &SeqSpec{
		Cfg:      Cfg{NumCounters: 16, MaxCost: 2, BufferItems: 1, SetBuf: 3, TTLTick: 2, BucketSecs: 1, MapOrder: "rot"},
		MaxDepth: depth,
		Alphabet: func(r *SeqRun) []Op { return alpha },
		Oracle:   c13Oracle,
		Probe: func(c seqCache, r *SeqRun) {
			if allIdle(r.Post.ClientState) && len(r.Post.SetBufItems) == 0 {
				iterProbe(c, r)
			}
		},
	}
}

func c13Seq(tier string) []SeqJob {
	var out []SeqJob
	add := func(name string, s *SeqSpec, secs float64) {
		out = append(out, SeqJob{Name: name, Spec: s, Seconds: secs})
	}
	if tier == "quick" {
		add("seq/unequal-costs+gets/max2/depth7", c13EvictSpec(7), 40)
		add("seq/zero-costs/max2/depth6", c13ZeroCostSpec(6), 40)
	} else {
		add("seq/unequal-costs+gets/max2/depth10", c13EvictSpec(10), 560)
		add("seq/zero-costs/max2/depth9", c13ZeroCostSpec(9), 560)
	}
	if tier == "quick" {
		add("seq/setbuf1/max2/2keys/depth6", c13Spec(1, 2, []int{1, 257}, 6, true), 40)
		add("seq/setbuf2/max2/3keys/depth5", c13Spec(2, 2, []int{1, 257, 2}, 5, true), 40)
		add("seq/setbuf3/max3/2keys/depth6", c13Spec(3, 3, []int{1, 2}, 6, false), 40)
	} else {
		add("seq/setbuf1/max2/2keys/depth9", c13Spec(1, 2, []int{1, 257}, 9, true), 560)
		add("seq/setbuf2/max2/3keys/depth7", c13Spec(2, 2, []int{1, 257, 2}, 7, true), 560)
		add("seq/setbuf3/max3/2keys/depth9", c13Spec(3, 3, []int{1, 2}, 9, false), 560)
		add("seq/setbuf2/max3/4keys/depth6", c13Spec(2, 3, []int{1, 257, 2, 3}, 6, true), 560)
	}
	return out
}

// preemptive part of C13: two writers on the same and on neighbouring keys; quiescent point =
// after the epilogue's Wait
func c13Jobs(tier string) []Job {
	bound := 2
	if tier == "thorough" {
		bound = 3
	}
	var jobs []Job
	set := func(k int) Op { return Op{K: "set", Key: k, Cost: 1} }
	cfg := Cfg{NumCounters: 16, MaxCost: 2, BufferItems: 2, SetBuf: 2, TTLTick: 2, BucketSecs: 1}
	// the expiry sweep racing an overwrite of the expiring key
	{
		tcfg := cfg
		tcfg.MaxCost = 3
		setupT := []Op{{K: "setttl", Key: 1, Cost: 1, TTL: 1000}, set(257), {K: "wait"}, {K: "advance", N: 3000}}
		for i, w := range [][]Op{{set(1)}, {{K: "setttl", Key: 1, Cost: 1, TTL: 10000}}} {
			sc := &Scenario{Name: fmt.Sprintf("dfs/sweep|overwrite%d", i), Cfg: tcfg, Setup: cp(setupT), Threads: [][]Op{{{K: "tick"}}, cp(w)}, Epilogue: []Op{{K: "wait"}}}
			jobs = append(jobs, Job{Scenario: sc, Bound: bound + 1})
		}
	}
	// Clear racing a Set of a new key (bound 1: Clear takes every shard lock)
	for i, w := range [][]Op{{set(2)}, {set(257), set(2)}, {{K: "del", Key: 1}, set(2)}} {
		sc := &Scenario{Name: fmt.Sprintf("dfs/clear|writer%d", i), Cfg: cfg, Setup: []Op{set(1), {K: "wait"}}, Threads: [][]Op{{{K: "clear"}}, cp(w)}, Epilogue: []Op{{K: "wait"}}}
		jobs = append(jobs, Job{Scenario: sc, Bound: bound - 1})
	}
	progs := [][]Op{{set(1), {K: "del", Key: 1}}, {set(1), set(257)}, {{K: "del", Key: 1}, set(1)}, {{K: "setttl", Key: 1, Cost: 1, TTL: 1000}, set(2)}}
	for i, a := range progs {
		for j, b := range progs {
			if j < i {
				continue
			}
			sc := &Scenario{Name: fmt.Sprintf("dfs/%d-%d", i, j), Cfg: cfg, Setup: []Op{set(1), {K: "wait"}}, Threads: [][]Op{cp(a), cp(b)}, Epilogue: []Op{{K: "wait"}}}
			jobs = append(jobs, Job{Scenario: sc, Bound: bound})
		}
	}
	return jobs
}

func c13DFSOracle(x *Exec, res *vsched.Result, job *Job) []Viol {
	d := x.AfterEpi
	if d == nil || d.SetBuf != 0 {
		return nil
	}
	var out []Viol
	store := map[uint64]bool{}
	for _, e := range d.Store {
		store[e.Key] = true
	}
	acc := map[uint64]bool{}
	for _, c := range d.Costs {
		acc[c.Key] = true
		if !store[c.Key] {
			out = append(out, Viol{Key: "C13/capacity-held-by-absent-entry", What: fmt.Sprintf("after the final Wait the accounting charges cost %d for key %d, which the map does not hold", c.Cost, c.Key)})
		}
	}
	for k := range store {
		if !acc[k] {
			out = append(out, Viol{Key: "C13/stored-entry-not-accounted", What: fmt.Sprintf("after the final Wait the map holds key %d but the accounting does not charge for it", k)})
		}
	}
	return out
}

// ----- C17 ------------------------------------------------------------------------------------------------

func c17Oracle(r *SeqRun) []Viol {
	d := r.Post
	if !(allIdle(d.ClientState) && len(d.SetBufItems) == 0) || d.Metrics == nil {
		return nil
	}
	names := ristretto.VerifMetricNames()
	m := map[string]uint64{}
	for i, n := range names {
		m[n] = d.Metrics[i]
	}
	// counts from the log since creation / the last Clear
	var gets, drops uint64
	for _, e := range r.Events {
		switch e.Kind {
		case evClearRet:
			gets, drops = 0, 0
		case evGetRet:
			gets++
		case evSetRet:
			if e.C == 0 && e.A >= 0 {
				drops++
			}
		}
	}
	// negative-ttl Sets return false without being "dropped because the buffer was full"
	for i, e := range r.Events {
		if e.Kind == evSetCall && e.C < 0 {
			_ = i
			drops--
		}
	}
	var out []Viol
	if m["hit"]+m["miss"] != gets {
		out = append(out, Viol{Key: "C17/hits-plus-misses-differs-from-gets", What: fmt.Sprintf("Hits %d + Misses %d != %d Get calls since creation / last Clear", m["hit"], m["miss"], gets)})
	}
	if m["keys-added"]-m["keys-evicted"] != uint64(len(d.Store)) {
		out = append(out, Viol{Key: "C17/keysadded-minus-keysevicted-differs-from-resident", What: fmt.Sprintf("KeysAdded %d - KeysEvicted %d != %d keys in the map", m["keys-added"], m["keys-evicted"], len(d.Store))})
	}
	if m["cost-added"]-m["cost-evicted"] != uint64(d.MaxCost-r.Probe["remaining"]) {
		out = append(out, Viol{Key: "C17/costadded-minus-costevicted-differs-from-used", What: fmt.Sprintf("CostAdded %d - CostEvicted %d != MaxCost %d - RemainingCost %d", m["cost-added"], m["cost-evicted"], d.MaxCost, r.Probe["remaining"])})
	}
	if m["sets-dropped"] != drops {
		out = append(out, Viol{Key: "C17/setsdropped-differs-from-refused-sets", What: fmt.Sprintf("SetsDropped %d != %d new-key Sets refused because the write buffer was full", m["sets-dropped"], drops)})
	}
	if m["gets-kept"]+m["gets-dropped"] > gets {
		// classify: Gets issued BEFORE the last Clear can still sit in a ring stripe and are
		// handed to the policy (and counted) after the Clear has reset the metrics
		var total uint64
		for _, e := range r.Events {
			if e.Kind == evGetRet {
				total++
			}
		}
		key := "C17/getskept-plus-getsdropped-exceeds-gets"
		if m["gets-kept"]+m["gets-dropped"] <= total {
			key = "C17/getskept-counts-gets-issued-before-the-last-clear"
		}
		out = append(out, Viol{Key: key, What: fmt.Sprintf("GetsKept %d + GetsDropped %d > %d Gets since the last Clear (%d since creation)", m["gets-kept"], m["gets-dropped"], gets, total)})
	}
	return out
}

func c17Abstract(r *SeqRun, ren func(int64) int64) string {
	var gets, drops int64
	for _, e := range r.Events {
		switch e.Kind {
		case evClearRet:
			gets, drops = 0, 0
		case evGetRet:
			gets++
		case evSetRet:
			if e.C == 0 {
				drops++
			}
		}
	}
	return fmt.Sprintf("g%d d%d", gets, drops) // (Gets before the last Clear only matter through the ring stripes, which are in the key)
}

func c17Spec(sb int, maxCost int64, keys []int, depth int, ttl bool) *SeqSpec {
	var alpha []Op
	for _, k := range keys {
		alpha = append(alpha, Op{K: "set", Key: k, Cost: 1}, Op{K: "get", Key: k}, Op{K: "set", Key: k, Cost: 2}, Op{K: "del", Key: k})
		if ttl {
			alpha = append(alpha, Op{K: "setttl", Key: k, Cost: 1, TTL: 1000})
		}
	}
	alpha = append(alpha, Op{K: "wait"}, Op{K: "drain"}, Op{K: "clear"})
	if ttl {
		alpha = append(alpha, Op{K: "advance", N: 3000}, Op{K: "tick"})
	}
	return &SeqSpec{
		Cfg:      Cfg{NumCounters: 16, MaxCost: maxCost, BufferItems: 2, SetBuf: sb, Metrics: true, TTLTick: 2, BucketSecs: 1, MapOrder: "rot"},
		MaxDepth: depth,
		Alphabet: func(r *SeqRun) []Op { return alpha },
		Oracle:   c17Oracle,
		Abstract: c17Abstract,
		Probe:    func(c seqCache, r *SeqRun) { r.Probe["remaining"] = c.Remaining() },
	}
}

// c17GetPressure: Get buffers of one key and a policy goroutine that is never scheduled unless
// the search decides so: the batch channel (3 slots) fills up and Get batches are refused.
func c17GetPressure(depth int) *SeqSpec {
	alpha := []Op{{K: "get", Key: 1}, {K: "get", Key: 2}, {K: "set", Key: 1, Cost: 1}}
	return &SeqSpec{
		Cfg:      Cfg{NumCounters: 16, MaxCost: 2, BufferItems: 1, SetBuf: 3, Metrics: true},
		MaxDepth: depth,
		Alphabet: func(r *SeqRun) []Op { return alpha },
		Oracle:   c17Oracle,
		Abstract: c17Abstract,
		Probe:    func(c seqCache, r *SeqRun) { r.Probe["remaining"] = c.Remaining() },
	}
}

// c17FromC13 reuses a C13 specification (alphabet, configuration) with metrics on under the C17 oracle.
func c17FromC13(s *SeqSpec) *SeqSpec {
	s.Cfg.Metrics = true
	s.Oracle = c17Oracle
	s.Abstract = c17Abstract
	s.Probe = func(c seqCache, r *SeqRun) { r.Probe["remaining"] = c.Remaining() }
	return s
}

func c17Seq(tier string) []SeqJob {
	var out []SeqJob
	add := func(name string, s *SeqSpec, secs float64) {
		out = append(out, SeqJob{Name: name, Spec: s, Seconds: secs})
	}
	// unequal costs and real Gets: admissions that take several victims and can still end in a
	// rejection (the eviction metrics move although the newcomer is turned away)
	if tier == "quick" {
		add("seq/unequal-costs+gets/max2/depth7", c17FromC13(c13EvictSpec(7)), 40)
	} else {
		add("seq/unequal-costs+gets/max2/depth10", c17FromC13(c13EvictSpec(10)), 560)
	}
	if tier == "quick" {
		add("seq/get-back-pressure/bufferitems1/depth8", c17GetPressure(8), 40)
	} else {
		add("seq/get-back-pressure/bufferitems1/depth11", c17GetPressure(11), 560)
	}
	if tier == "quick" {
		add("seq/setbuf1/max2/2keys/depth6", c17Spec(1, 2, []int{1, 2}, 6, false), 40)
		add("seq/setbuf3/max2/2keys/ttl/depth4", c17Spec(3, 2, []int{1, 2}, 4, true), 40)
		add("seq/setbuf3/max3/3keys/depth4", c17Spec(3, 3, []int{1, 2, 3}, 4, false), 40)
	} else {
		add("seq/setbuf1/max2/2keys/depth7", c17Spec(1, 2, []int{1, 2}, 7, false), 560)
		add("seq/setbuf3/max2/2keys/ttl/depth7", c17Spec(3, 2, []int{1, 2}, 7, true), 560)
		add("seq/setbuf3/max3/3keys/depth6", c17Spec(3, 3, []int{1, 2, 3}, 6, false), 560)
		add("seq/setbuf1/max3/3keys/ttl/depth6", c17Spec(1, 3, []int{1, 2, 3}, 6, true), 560)
	}
	return out
}

// preemptive part of C17: two threads mixing Get and Set so that striped counters are hit concurrently
func c17Jobs(tier string) []Job {
	bound := 2
	if tier == "thorough" {
		bound = 3
	}
	var jobs []Job
	cfg := Cfg{NumCounters: 16, MaxCost: 2, BufferItems: 2, SetBuf: 2, Metrics: true}
	set := func(k int, c int64) Op { return Op{K: "set", Key: k, Cost: c} }
	get := func(k int) Op { return Op{K: "get", Key: k} }
	progs := [][]Op{{set(1, 1), get(1)}, {get(1), set(2, 1)}, {set(1, 2), get(2)}, {{K: "del", Key: 1}, get(1)}}
	for i, a := range progs {
		for j, b := range progs {
			if j < i {
				continue
			}
			sc := &Scenario{Name: fmt.Sprintf("dfs/%d-%d", i, j), Cfg: cfg, Setup: []Op{set(1, 1), {K: "wait"}}, Threads: [][]Op{cp(a), cp(b)}, Epilogue: []Op{{K: "wait"}, {K: "metrics"}, {K: "remaining"}}}
			jobs = append(jobs, Job{Scenario: sc, Bound: bound})
		}
	}
	// the counters themselves: EVERY atomic operation is a schedule point here (elsewhere the
	// striped counters are updated without a point because atomic adds commute - which is a
	// fact about the current code, not about every change to it); keys 1 and 26 share a stripe
	mp := cfg
	mp.MetricPoints = true
	for i, pr := range [][2][]Op{{{get(1)}, {get(1)}}, {{get(1)}, {get(26)}}, {{get(26), get(1)}, {get(1)}}, {{set(26, 1)}, {set(1, 1)}}, {{set(26, 1)}, {get(1)}}, {{{K: "del", Key: 1}}, {set(26, 1)}}} {
		sc := &Scenario{Name: fmt.Sprintf("dfs/metric-cells-are-points/%d", i), Cfg: mp, Setup: []Op{set(1, 1), {K: "wait"}}, Threads: [][]Op{cp(pr[0]), cp(pr[1])}, Epilogue: []Op{{K: "wait"}, {K: "metrics"}, {K: "remaining"}}}
		jobs = append(jobs, Job{Scenario: sc, Bound: bound})
	}
	return jobs
}

func c17DFSOracle(x *Exec, res *vsched.Result, job *Job) []Viol {
	// judged at the drained state after the epilogue's Wait: Hits+Misses == Gets; KeysAdded-KeysEvicted == resident
	var gets, hits, misses, added int64 = 0, -1, -1, -1
	for _, e := range res.Events {
		switch e.Kind {
		case evGetRet:
			gets++
		case evMetrics:
			hits, misses, added = e.A, e.B, e.C
		}
	}
	var out []Viol
	if hits >= 0 && hits+misses != gets {
		out = append(out, Viol{Key: "C17/hits-plus-misses-differs-from-gets", What: fmt.Sprintf("Hits %d + Misses %d != %d Get calls", hits, misses, gets)})
	}
	_ = added
	// the other laws, white-box at the drained state after the epilogue's Wait
	if d := x.AfterEpi; d != nil && d.SetBuf == 0 && d.Metric != nil {
		m := map[string]uint64{}
		for i, n := range ristretto.VerifMetricNames() {
			m[n] = d.Metric[i]
		}
		if m["keys-added"]-m["keys-evicted"] != uint64(len(d.Store)) {
			out = append(out, Viol{Key: "C17/keysadded-minus-keysevicted-differs-from-resident", What: fmt.Sprintf("KeysAdded %d - KeysEvicted %d != %d keys in the map", m["keys-added"], m["keys-evicted"], len(d.Store))})
		}
		if m["cost-added"]-m["cost-evicted"] != uint64(d.Used) {
			out = append(out, Viol{Key: "C17/costadded-minus-costevicted-differs-from-used", What: fmt.Sprintf("CostAdded %d - CostEvicted %d != accounted cost %d", m["cost-added"], m["cost-evicted"], d.Used)})
		}
		var drops uint64
		for _, e := range res.Events {
			if e.Kind == evSetRet && e.C == 0 {
				drops++
			}
		}
		if m["sets-dropped"] != drops {
			out = append(out, Viol{Key: "C17/setsdropped-differs-from-refused-sets", What: fmt.Sprintf("SetsDropped %d != %d refused Sets", m["sets-dropped"], drops)})
		}
		if m["gets-kept"]+m["gets-dropped"] > uint64(gets) {
			out = append(out, Viol{Key: "C17/getskept-plus-getsdropped-exceeds-gets", What: fmt.Sprintf("GetsKept %d + GetsDropped %d > %d Gets", m["gets-kept"], m["gets-dropped"], gets)})
		}
	}
	return out
}

func init() {
	registerProp(&Prop{ID: "C03", Level: "model_checking",
		Rule: "explicit-state BFS over single-client histories {Set(k,c) for c in {0 via Config.Cost,1,2,MaxCost,MaxCost+1}, Del, Get, UpdateMaxCost(+2), Wait} x every applier / policy step x every rotation of the sampling map's order, MaxCost 3/4, with and without the internal per-item cost, on the real cache; " +
			"oracle on every state: used == sum of per-key costs; RemainingCost() == MaxCost() - that sum; an applier step that admits a key leaves used <= MaxCost and never admits cost > MaxCost; in histories without a cost-raising update or a lowering of MaxCost every drained state has RemainingCost() >= 0",
		Assume: []string{"single client in the history search; costs from the listed alphabet", "the reported room is judged against the costs of the RESIDENT keys: a stored key that is not accounted is a violation"},
		Seq:    c03Seq,
		Jobs:   c03Jobs,
		Oracle: c03DFSOracle,
	})
	registerProp(&Prop{ID: "C13", Level: "model_checking",
		Rule: "explicit-state BFS over histories {Set, SetWithTTL, Del, Clear, Wait, clock advance, tick} x every applier step (write-buffer sizes 1-3 => buffer-full drops; MaxCost 2-3 => evictions / rejections), collision-free keys, + preemptive DFS of two writers; " +
			"oracle at every quiescent state: keys charged == keys stored; IterValues visits exactly the unexpired stored values once and honours stop after the i-th visit for every i; empty map => RemainingCost()==MaxCost() and nothing enumerated",
		Assume:  []string{"no two live keys collide on the primary hash (the property's antecedent)"},
		Seq:     c13Seq,
		Jobs:    c13Jobs,
		Oracle:  c13DFSOracle,
		Outcome: getOutcome,
	})
	registerProp(&Prop{ID: "C17", Level: "model_checking",
		Rule: "explicit-state BFS over histories {Set cost 1/2, Get, Del, SetWithTTL, Wait, advance, tick} x every applier / policy step with Metrics on, + preemptive DFS of two threads mixing Get and Set; " +
			"oracle at every drained state: Hits+Misses == Gets since creation/Clear; KeysAdded-KeysEvicted == keys in the map; CostAdded-CostEvicted (mod 2^64) == MaxCost-RemainingCost(); SetsDropped == refused new-key Sets; GetsKept+GetsDropped <= Gets",
		Assume:  []string{"striped metric counters are updated atomically without a schedule point (their adds commute); laws are judged at drained states only"},
		Seq:     c17Seq,
		Jobs:    c17Jobs,
		Oracle:  c17DFSOracle,
		Outcome: getOutcome,
	})
}
