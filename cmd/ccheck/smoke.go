package main

import "verif/shim/vsched"

func init() {
	registerProp(&Prop{ID: "S00", Level: "exploration", Rule: "smoke",
		Jobs: func(tier string) []Job {
			cfg := Cfg{NumCounters: 16, MaxCost: 4, BufferItems: 2, SetBuf: 2}
			s := &Scenario{Name: "smoke", Cfg: cfg,
				Threads:  [][]Op{{{K: "set", Key: 1, Cost: 1}, {K: "get", Key: 1}}, {{K: "get", Key: 1}, {K: "del", Key: 1}}},
				Epilogue: []Op{{K: "wait"}, {K: "get", Key: 1}, {K: "close"}}}
			var jobs []Job
			for b := 0; b <= 2; b++ {
				jobs = append(jobs, Job{Scenario: s, Bound: b})
			}
			return jobs
		},
		Oracle: func(x *Exec, res *vsched.Result, job *Job) []Viol { return nil },
	})
}
