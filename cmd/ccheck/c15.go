package main

import (
	"fmt"
	"time"

	"verif/shim/vsched"
)

// C15 — Close and Clear leave a consistent cache: inert after Close, fresh after Clear.
//
// Sequential driver with TWO client threads: client 0 builds the history (new items,
// overwrites, TTL entries, tombstones, Gets) and finally calls Clear / Close (any repetition:
// they are ordinary events); client 1 calls Wait, so that at the Close/Clear there can be a
// goroutine blocked in Wait behind a stalled applier. Every applier lag is an event, so every
// combination of resident entries, buffered new items, buffered overwrites, buffered tombstones
// and pending Wait markers precedes the Close/Clear.

func c15Oracle(r *SeqRun) []Viol {
	var out []Viol
	n := len(r.Hist)
	if n == 0 {
		return nil
	}
	last := r.Hist[n-1]
	if !(last.K == "op" || last.K == "resume") || r.Status[n-1] != "yielded" {
		return nil
	}
	// which call just completed? (a resumed Clear/Close counts too)
	var kind string
	for i := len(r.Events) - 1; i >= 0; i-- {
		e := r.Events[i]
		if e.Kind == evClearRet {
			kind = "clear"
			break
		}
		if e.Kind == evCloseRet {
			kind = "close"
			break
		}
		if e.Kind == evSetRet || e.Kind == evGetRet || e.Kind == evDelRet || e.Kind == evWaitRet {
			break
		}
	}
	if kind == "" {
		return nil
	}
	d := r.Post
	if kind == "clear" && d.IsClosed {
		kind = "close" // a Clear on a closed cache is a no-op: the cache must (still) be inert
	}
	// goroutines blocked in Wait have been released
	for ci, st := range d.ClientState {
		if st == 'b' {
			released := false
			for _, e := range r.Enabled {
				if e.K == "resume" && e.T == ci {
					released = true
				}
			}
			if !released {
				out = append(out, Viol{Key: "C15/blocked-waiter-not-released-by-" + kind, What: fmt.Sprintf("client %d is still blocked (in Wait) after %s returned", ci, kind)})
			}
		}
	}
	// every value accepted before the call began has been released
	out = append(out, exactlyOnceSpans(r.Events, "C15")...)
	switch kind {
	case "clear":
		if len(d.Store) != 0 || len(d.Costs) != 0 || len(d.SetBufItems) != 0 {
			out = append(out, Viol{Key: "C15/not-empty-after-clear", What: fmt.Sprintf("after Clear: %d stored entries, %d accounted keys, %d buffered items", len(d.Store), len(d.Costs), len(d.SetBufItems))})
		}
		if r.Probe["remaining"] != r.Probe["maxcost"] {
			out = append(out, Viol{Key: "C15/capacity-not-reset-by-clear", What: fmt.Sprintf("after Clear RemainingCost()=%d, MaxCost()=%d", r.Probe["remaining"], r.Probe["maxcost"])})
		}
		if r.Probe["iter"] != 0 {
			out = append(out, Viol{Key: "C15/enumerates-after-clear", What: fmt.Sprintf("after Clear IterValues visited %d values", r.Probe["iter"])})
		}
		for i, m := range d.Metrics {
			if m != 0 {
				out = append(out, Viol{Key: "C15/metrics-not-reset-by-clear", What: fmt.Sprintf("after Clear metric #%d is %d", i, m)})
				break
			}
		}
		if d.Daemons != 2 {
			out = append(out, Viol{Key: "C15/goroutines-after-clear", What: fmt.Sprintf("after Clear %d background goroutines are running, want 2 (applier restarted, policy)", d.Daemons)})
		}
		// behaves as a fresh cache: Set / Wait / Get / Del / Wait / Get
		if upd, probed := r.Probe["p_upd"]; probed && upd != 1 {
			out = append(out, Viol{Key: "C15/not-fresh-after-clear", What: "after Clear an overwrite of a plain entry with SetWithTTL is not served"})
		}
		if want, got := "set=1 get=1 get2=0", fmt.Sprintf("set=%d get=%d get2=%d", r.Probe["p_set"], r.Probe["p_get"], r.Probe["p_get2"]); want != got {
			out = append(out, Viol{Key: "C15/not-fresh-after-clear", What: "after Clear the probe Set/Wait/Get/Del/Wait/Get observed " + got + ", a new cache gives " + want})
		}
		if _, probed := r.Probe["p_ttl_left"]; probed && (r.Probe["p_ttl_left"] != 0 || r.Probe["p_ttl_room"] != 1) {
			out = append(out, Viol{Key: "C15/expiry-processing-not-fresh-after-clear", What: fmt.Sprintf("after Clear a SetWithTTL(1s) entry is still stored=%d after eight sweeps spread over 24 s (capacity fully free: %d); a new cache reclaims it", r.Probe["p_ttl_left"], r.Probe["p_ttl_room"])})
		}
		if r.Probe["m_on"] == 1 {
			want := "hits=2 misses=1 keys-added=1 keys-evicted=1 cost-added=1 cost-evicted=1" // (two probe Gets hit: the Set and its TTL overwrite)
			got := fmt.Sprintf("hits=%d misses=%d keys-added=%d keys-evicted=%d cost-added=%d cost-evicted=%d", r.Probe["m_hits"], r.Probe["m_misses"], r.Probe["m_added"], r.Probe["m_evicted"], r.Probe["m_costadded"], r.Probe["m_costevicted"])
			if want != got {
				out = append(out, Viol{Key: "C15/metrics-not-fresh-after-clear", What: "after Clear the probe Set/Wait/Get/SetWithTTL/Get/Del/Wait/Get left the metrics at " + got + "; on a new cache they are " + want})
			}
		}
	case "close":
		if d.ClosedKnown && !d.IsClosed {
			out = append(out, Viol{Key: "C15/not-closed", What: "Close returned but the cache is not marked closed"})
		}
		if d.Daemons != 0 {
			out = append(out, Viol{Key: "C15/goroutines-after-close", What: fmt.Sprintf("after Close %d background goroutines are still running", d.Daemons)})
		}
		if got := fmt.Sprintf("set=%d get=%d returned=%d", r.Probe["p_set"], r.Probe["p_get"], r.Probe["p_done"]); got != "set=0 get=0 returned=1" {
			out = append(out, Viol{Key: "C15/not-inert-after-close", What: "after Close: Set/Get/Del/Wait/Clear/Close probe observed " + got + "; want set=0 get=0 returned=1"})
		}
		// every accepted value has been released through OnExit
		out = append(out, exactlyOnce(r.Events, "C15")...)
	}
	return out
}

// exactlyOnceSpans: the Clear/Close deadline part of the C04 oracle
func exactlyOnceSpans(evs []vsched.Event, id string) []Viol {
	var out []Viol
	for _, v := range exactlyOnce(evs, id) {
		if v.Key == id+"/not-released-by-clear-or-close" || v.Key == id+"/onexit-twice" {
			out = append(out, v)
		}
	}
	return out
}

func c15Probe(c seqCache, r *SeqRun) {
	n := len(r.Hist)
	if n == 0 || r.Status[n-1] != "yielded" {
		return
	}
	var kind string
	for i := len(r.Events) - 1; i >= 0; i-- {
		e := r.Events[i]
		if e.Kind == evClearRet {
			kind = "clear"
			break
		}
		if e.Kind == evCloseRet {
			kind = "close"
			break
		}
		if e.Kind == evSetRet || e.Kind == evGetRet || e.Kind == evDelRet || e.Kind == evWaitRet {
			break
		}
	}
	if kind == "clear" && r.Post.IsClosed {
		kind = "close"
	}
	switch kind {
	case "clear":
		r.Probe["remaining"], r.Probe["maxcost"] = c.Remaining(), c.MaxCost()
		cnt := int64(0)
		c.Iter(func(int64) bool { cnt++; return false })
		r.Probe["iter"] = cnt
		// only when nobody is blocked: the probe's Wait needs the applier, and a released
		// waiter would otherwise be scheduled by the probe
		if allIdle(r.Post.ClientState) {
			r.Probe["p_set"] = b2i(c.Set(9, 999, 1))
			c.Wait()
			v, ok := c.Get(9)
			r.Probe["p_get"] = b2i(ok && v == 999)
			// overwrite of the plain entry WITH a TTL, before any TTL insert since the Clear (the
			// expiry index must accept a move of a key it never filed)
			c.SetTTL(9, 998, 1, time.Hour)
			v, ok = c.Get(9)
			r.Probe["p_upd"] = b2i(ok && v == 998)
			c.Del(9)
			c.Wait()
			_, ok = c.Get(9)
			r.Probe["p_get2"] = b2i(ok)
			// ... and its metrics count this little workload as a new cache's would
			if m := c.Metrics(); m != nil {
				r.Probe["m_hits"], r.Probe["m_misses"] = int64(m.Hits()), int64(m.Misses())
				r.Probe["m_added"], r.Probe["m_evicted"] = int64(m.KeysAdded()), int64(m.KeysEvicted())
				r.Probe["m_costadded"], r.Probe["m_costevicted"] = int64(m.CostAdded()), int64(m.CostEvicted())
				r.Probe["m_on"] = 1
			}
			// ... and expiry processing works as on a new cache: a TTL entry written now is
			// reclaimed by the sweeps that follow its expiry
			c.SetTTL(8, 888, 1, time.Second)
			c.Wait()
			for i := 0; i < 8 && (i < 3 || c.Resident(8)); i++ { // generous: up to 24 bucket lengths
				runOp(c, Op{K: "advance", N: 3000})
				runOp(c, Op{K: "tick"})
				c.Wait()
			}
			r.Probe["p_ttl_left"] = b2i(c.Resident(8))
			r.Probe["p_ttl_room"] = b2i(c.Remaining() == c.MaxCost())
		} else {
			r.Probe["p_set"], r.Probe["p_get"], r.Probe["p_get2"] = 1, 1, 0
		}
	case "close":
		r.Probe["p_set"] = b2i(c.Set(9, 999, 1))
		_, ok := c.Get(1)
		r.Probe["p_get"] = b2i(ok)
		c.Del(1)
		c.Wait()
		c.Clear()
		c.Close()
		r.Probe["p_done"] = 1
	}
}

func c15Seq(tier string) []SeqJob {
	var out []SeqJob
	mk := func(name string, sb, depth int, secs float64) {
		a0 := []Op{{K: "set", Key: 1, Cost: 1}, {K: "del", Key: 1}, {K: "clear"}, {K: "close"}, {K: "setttl", Key: 1, Cost: 1, TTL: 1000}, {K: "set", Key: 257, Cost: 1}, {K: "get", Key: 1},
			{K: "advance", N: 3000}} // so that expired-but-unswept TTL entries are resident at the Clear / Close
		a1 := []Op{{K: "wait"}}
		spec := &SeqSpec{Cfg: Cfg{NumCounters: 16, MaxCost: 2, BufferItems: 2, SetBuf: sb, Metrics: true, TTLTick: 2, BucketSecs: 1}, MaxDepth: depth, Clients: 2,
			Alphabet: func(r *SeqRun) []Op { return a0 },
			AlphabetT: func(r *SeqRun, t int) []Op {
				// no call is STARTED while a Clear / Close is in progress (the property does not
				// cover Close or Clear racing other calls); a Wait that is already blocked is the
				// scenario of interest
				open := false
				for _, e := range r.Events {
					switch e.Kind {
					case evClearCall, evCloseCall:
						open = true
					case evClearRet, evCloseRet:
						open = false
					}
				}
				if open {
					return nil
				}
				return a1
			},
			Oracle: c15Oracle, Probe: c15Probe,
			Terminal: func(r *SeqRun) bool {
				return r.Post.IsClosed && allIdle(r.Post.ClientState) && len(r.Hist) > 0 && closedTwice(r)
			},
		}
		out = append(out, SeqJob{Name: name, Spec: spec, Seconds: secs})
	}
	if tier == "quick" {
		mk("seq/setbuf1/depth7", 1, 7, 40)
		mk("seq/setbuf3/depth6", 3, 6, 40)
	} else {
		mk("seq/setbuf1/depth8", 1, 8, 560)
		mk("seq/setbuf2/depth7", 2, 7, 560)
		mk("seq/setbuf3/depth7", 3, 7, 560)
	}
	return out
}

// closedTwice: stop expanding once Close has been called twice (Close.Close is covered)
func closedTwice(r *SeqRun) bool {
	n := 0
	for _, e := range r.Events {
		if e.Kind == evCloseRet {
			n++
		}
	}
	return n >= 2
}

func init() {
	registerProp(&Prop{ID: "C15", Level: "model_checking",
		Rule: "explicit-state BFS over histories of two client threads (client 0: Set new / overwrite, SetWithTTL, Del, Get, Clear, Close in any repetition; client 1: Wait, possibly left blocked behind a stalled applier) x every applier step, write-buffer sizes 1-3, metrics on, on the real cache driven sequentially; " +
			"oracle when a Clear returns: nothing stored / accounted / buffered / enumerated, RemainingCost()==MaxCost(), all metric totals zero, blocked waiters released, exactly two background goroutines, values accepted before the call released through OnExit, and the probe Set/Wait/Get/Del/Wait/Get behaves as on a new cache; " +
			"when a Close returns: closed flag set, every background goroutine the cache ever started has terminated (scheduler's thread table), every accepted value released exactly once, blocked waiters released, and Set returns false, Get misses, Del/Wait/Clear/Close return",
		Assume: []string{"Close/Clear are not raced against other calls (the property quantifies over the history preceding them); the preemptive Clear races are explored in C02/C04/C08"},
		Seq:    c15Seq,
	})
}
