package main

// Sequential driver + explicit-state search ("bfs" engine of DESIGN.md §2.4).
//
// A history is a list of events; each event runs ONE thread exclusively until it reaches a
// voluntary switch point, blocks or finishes (vsched.Drive):
//   op       — the single client thread performs one API call (it may block mid-call)
//   resume   — the blocked client continues
//   applier  — the cache's applier goroutine takes one ready case of its select (one buffered
//              item, the sweep tick, or the stop request of Clear/Close) and processes it
//   policy   — the policy goroutine takes one batch of Get keys
//   env      — clock advance / ticker tick, performed by the driver itself
// so that "any number of buffered items applied between any two client calls" is simply the
// set of all histories. The search is breadth-first over histories with de-duplication on a
// canonical white-box state key (everything the implementation can branch on, with value ids
// renamed by first appearance, plus the property's own oracle bookkeeping). A state is expanded
// once; every node is produced by replaying its history on a FRESH real cache.

import (
	"crypto/sha1"
	"fmt"
	"os"
	"sort"
	"strings"
	"time"

	ristretto "github.com/dgraph-io/ristretto/v2"

	"verif/explore"
	"verif/shim/vsched"
	"verif/shim/vtime"
)

type SeqEvent struct {
	K       string `json:"k"` // op | resume | applier | policy | env
	T       int    `json:"t,omitempty"` // client thread index for op / resume
	Op      *Op    `json:"op,omitempty"`
	Pick    int    `json:"pick,omitempty"`
	Choices []int  `json:"choices,omitempty"` // data choices met while the event ran (map orders)
	Desc    string `json:"desc,omitempty"`
}

func (e SeqEvent) String() string {
	s := e.K
	switch e.K {
	case "op", "env":
		s = e.Op.String()
		if e.T > 0 {
			s = fmt.Sprintf("T%d:%s", e.T, s)
		}
	case "resume":
		s = fmt.Sprintf("resume-T%d", e.T)
	case "applier", "policy":
		s = e.K + ":" + e.Desc
	}
	if len(e.Choices) > 0 {
		s += fmt.Sprint(e.Choices)
	}
	return s
}

func histString(h []SeqEvent) string {
	var p []string
	for _, e := range h {
		p = append(p, e.String())
	}
	return strings.Join(p, " ; ")
}

// SDump is the full white-box state at a quiescent point of the sequential driver.
type SDump struct {
	Dump
	SetBufItems []ristretto.VerifItemInfo
	ItemsCh     [][]uint64
	Ring        []string // fingerprints of the pooled Get-ring stripes
	Admit       []byte   // fingerprint of the complete TinyLFU state
	Extras      []byte   // fingerprint of private fields the harness does not know by name
	Metrics     []uint64
	ClockNs     int64
	TickPending int
	ClientState string // per client: i idle | b blocked
	Daemons     int    // live daemon threads
}

type seqCache interface {
	cacheAPI
	SDump() *SDump
	Estimate(keyHash uint64) int64
	// cheap white-box lookups used to log the antecedents of an operation before it runs
	Resident(key int) bool
	PendingNew(key int) bool
	BufShadow() []any
	PolicyCosts() []ristretto.VerifCost
}

func (t *typedCache[K]) PolicyCosts() []ristretto.VerifCost {
	c, _, _ := ristretto.VerifPolicy(t.c)
	return c
}

// BufShadow is the FIFO of pending writes, oldest first: the item the applier was handed
// directly while it was idle and has not processed yet (Go gives a value sent on a buffered
// channel straight to a blocked receiver), followed by the contents of the write buffer.
func (t *typedCache[K]) BufShadow() []any {
	setBuf, _ := ristretto.VerifChans(t.c)
	var out []any
	if _, app := daemonTids(); app >= 0 {
		if v := vsched.InHand(app); v != nil {
			if _, ok := ristretto.VerifItem[int64](v); ok {
				out = append(out, v)
			}
		}
	}
	return append(out, vsched.ShadowOf(setBuf)...)
}

// tickPending counts ticks delivered but not yet turned into a completed sweep (in the
// ticker's channel, or handed to the applier which is still sweeping).
func tickPending() int {
	n := 0
	for _, t := range vtime.Tickers() {
		n += t.Pending()
	}
	if _, app := daemonTids(); app >= 0 {
		if _, ok := vsched.InHand(app).(time.Time); ok {
			n++
		}
	}
	return n
}

func (t *typedCache[K]) Resident(key int) bool {
	h, _ := ristretto.VerifKeyToHash(t.c, t.mk(key))
	return ristretto.VerifHas(t.c, h)
}

func (t *typedCache[K]) PendingNew(key int) bool {
	h, _ := ristretto.VerifKeyToHash(t.c, t.mk(key))
	for _, x := range t.BufShadow() {
		if it, ok := ristretto.VerifItem[int64](x); ok && it.Flag == 0 && !it.IsWait && it.Key == h {
			return true
		}
	}
	return false
}

func (t *typedCache[K]) Estimate(h uint64) int64 { return ristretto.VerifEstimate(t.c, h) }

func (t *typedCache[K]) SDump() *SDump {
	d := &SDump{Dump: *t.Dump()}
	_, itemsCh := ristretto.VerifChans(t.c)
	for _, x := range t.BufShadow() {
		if it, ok := ristretto.VerifItem[int64](x); ok {
			d.SetBufItems = append(d.SetBufItems, it)
		}
	}
	batches := vsched.ShadowOf(itemsCh)
	if pol, _ := daemonTids(); pol >= 0 {
		if b, ok := vsched.InHand(pol).([]uint64); ok {
			batches = append([]any{b}, batches...)
		}
	}
	for _, x := range batches {
		if b, ok := x.([]uint64); ok {
			d.ItemsCh = append(d.ItemsCh, append([]uint64(nil), b...))
		}
	}
	d.Ring = ristretto.VerifRingFP(t.c)
	d.Admit = ristretto.VerifAdmitFP(t.c)
	d.Extras = ristretto.VerifExtrasFP(t.c)
	d.Metrics = ristretto.VerifMetricTotals(t.c.Metrics)
	return d
}

// SeqRun is the outcome of executing one history.
type SeqRun struct {
	Hist       []SeqEvent
	Events     []vsched.Event
	EvStart    []int // index into Events where history event i begins
	Pre, Post  *SDump
	Status     []string // per event: yielded | blocked | finished | env
	Enabled    []SeqEvent
	NeedChoice int // >0: the last event met an unresolved data choice with that many alternatives
	Outcome    vsched.Outcome
	Detail     string
	C          seqCache
	Probe      map[string]int64 // results of the property's probe (run after the last event)
	IterAll    []int64          // probe: values visited by a full IterValues
	IterStop   []int            // probe: visits seen by a callback that stops at visit i+1
}

type zeroChooser struct{}

func (zeroChooser) Choose(i int, p *vsched.Point) int { return 0 }

// SeqSpec is what a property supplies to the sequential explorer.
type SeqSpec struct {
	Cfg Cfg
	// Alphabet returns the client / env operations offered after run (nil run: initial state).
	Alphabet func(r *SeqRun) []Op
	// Oracle judges the history just executed (the full event log is available).
	Oracle func(r *SeqRun) []Viol
	// Abstract returns the oracle bookkeeping that must be part of the state key; ren renames
	// value ids canonically.
	Abstract func(r *SeqRun, ren func(int64) int64) string
	// Probe runs in the driver thread after the last event (public API / white-box reads).
	Probe func(c seqCache, r *SeqRun)
	// Terminal: do not expand after this event (e.g. Close)
	Terminal func(r *SeqRun) bool
	// Outside: the history left the property's antecedent (e.g. an item that does not fit):
	// the node is neither judged nor expanded
	Outside func(r *SeqRun) bool
	MaxDepth int
	// Clients is the number of client threads (default 1); AlphabetT gives the ops of client t>0.
	Clients   int
	AlphabetT func(r *SeqRun, t int) []Op
	// LogEstimates makes the driver log the TinyLFU estimates of every accounted key and of the
	// head item's key before each applier step that consumes a new item (C09).
	LogEstimates bool
}

func daemonTids() (policy, applier int) {
	policy, applier = -1, -1
	for _, t := range vsched.Threads() {
		if !t.Daemon || t.Finished {
			continue
		}
		if policy < 0 {
			policy = t.ID
		} else {
			applier = t.ID
		}
	}
	return
}

// runHistory executes hist on a fresh cache under the sequential driver.
func runHistory(spec *SeqSpec, hist []SeqEvent) *SeqRun {
	run := &SeqRun{Hist: hist, Probe: map[string]int64{}}
	nclients := spec.Clients
	if nclients < 1 {
		nclients = 1
	}
	// idle clients are BLOCKED on their mailbox (not merely parked at a yield), so that the
	// driver's own blocking probes can never schedule them by accident
	boxes := make([]chan Op, nclients)
	inOp := make([]bool, nclients)
	body := func() {
		vtime.ResetClock()
		vsched.SetDaemonYield(true)
		vsched.SetShadow(true)
		vsched.MapYieldKind = 0
		if spec.LogEstimates {
			vsched.MapYieldKind = evMapYield
		}
		if spec.Cfg.MapOrder == "rot" {
			vsched.SetMapOrder(func(n int) int { return n })
		} else if spec.Cfg.MapOrder == "perm" {
			vsched.SetMapOrder(func(n int) int {
				if n > 4 {
					return n
				}
				f := 1
				for i := 2; i <= n; i++ {
					f *= i
				}
				return n + f
			})
		}
		c := newCache(spec.Cfg, nil).(seqCache)
		run.C = c
		clients := make([]int, nclients)
		for ci := 0; ci < nclients; ci++ {
			ci := ci
			boxes[ci] = make(chan Op, 1)
			clients[ci] = vsched.Spawn(fmt.Sprintf("client%d", ci), func() {
				for {
					op := vsched.Recv(boxes[ci])
					inOp[ci] = true
					runOp(c, op)
					inOp[ci] = false
				}
			})
		}
		clientBlocked := make([]bool, nclients)
		snapshot := func() *SDump {
			d := c.SDump()
			if !d.ClosedKnown {
				for _, e := range vsched.Events() {
					d.IsClosed = d.IsClosed || e.Kind == evCloseRet
				}
			}
			d.ClockNs = vtime.Now().Sub(vtime.Base).Nanoseconds()
			d.TickPending = tickPending()
			for _, b := range clientBlocked {
				if b {
					d.ClientState += "b"
				} else {
					d.ClientState += "i"
				}
			}
			for _, t := range vsched.Threads() {
				if t.Daemon && !t.Finished {
					d.Daemons++
				}
			}
			return d
		}
		// loggedDrive: one step of the applier inside a compound event, logged exactly like a
		// separate applier event (which buffered item it consumed, accounting changes)
		loggedDrive := func(app, pick int) {
			head := c.BufShadow()
			costsBefore := c.PolicyCosts()
			st := vsched.Drive(app, pick)
			for st == vsched.DriveChoice {
				st = vsched.Drive(app, 0)
			}
			if after := c.BufShadow(); len(head) > 0 && (len(after) == 0 || after[0] != head[0]) {
				if it, ok := ristretto.VerifItem[int64](head[0]); ok {
					v, _ := it.Value.(int64)
					fl := int64(it.Flag)
					if it.IsWait {
						fl = 3
					}
					vsched.Log(evApplied, int64(it.Key), v, fl)
					vsched.Log(evItemCost, int64(it.Key), it.Cost, 0)
				}
			}
			before := map[uint64]int64{}
			for _, kc := range costsBefore {
				before[kc.Key] = kc.Cost
			}
			for _, kc := range c.PolicyCosts() {
				if old, had := before[kc.Key]; !had {
					vsched.Log(evCost, int64(kc.Key), -1, kc.Cost)
				} else if old != kc.Cost {
					vsched.Log(evCost, int64(kc.Key), old, kc.Cost)
				}
			}
		}
		for i, e := range hist {
			if i == len(hist)-1 {
				run.Pre = snapshot()
			}
			run.EvStart = append(run.EvStart, vsched.NumEvents())
			var st vsched.DriveStatus
			tid, pick := -1, 0
			switch e.K {
			case "op":
				tid = clients[e.T]
				if k := e.Op.K; k == "set" || k == "setttl" || k == "del" || k == "get" {
					// antecedents of the call, read white-box while every thread is parked
					var fl int64
					if c.Resident(e.Op.Key) {
						fl |= 1
					}
					if c.PendingNew(e.Op.Key) {
						fl |= 2
					}
					_, used, maxc := c.Account()
					vsched.Log(evPre, int64(e.Op.Key), fl, maxc-used)
				}
			case "resume":
				tid = clients[e.T]
			case "applier":
				_, tid = daemonTids()
				pick = e.Pick
			case "policy":
				tid, _ = daemonTids()
				pick = e.Pick
			case "env":
				if e.Op.K == "sweep" || e.Op.K == "advance+sweep" {
					if e.Op.K == "advance+sweep" {
						runOp(c, Op{K: "advance", N: e.Op.N})
					}
					// compound event: deliver a tick and let the applier process it at once
					runOp(c, Op{K: "tick"})
					for guard := 0; guard < 4 && tickPending() > 0; guard++ {
						_, app := daemonTids()
						if app < 0 {
							break
						}
						// the applier's own ready cases come in select order (write buffer, ticker),
						// joint transitions after them: the tick is its last own case; an applier
						// that was handed the tick (or an item) directly just continues
						pickT := -1
						for i, d := range vsched.Query(app) {
							if d.Partner < 0 {
								pickT = i
							}
						}
						if pickT < 0 {
							break
						}
						before := tickPending()
						loggedDrive(app, pickT) // (an applier holding an item it was handed directly applies that first)
						if tickPending() < before {
							vsched.Log(evSweep, 0, 0, 0)
						}
					}
					run.Status = append(run.Status, "env")
					continue
				}
				if e.Op.K == "drain" {
					// compound event: the applier processes buffered items until the write buffer
					// is empty (each step is logged exactly like a separate applier event)
					for guard := 0; guard < 64; guard++ {
						_, app := daemonTids()
						if app < 0 || len(c.BufShadow()) == 0 {
							break
						}
						descs := vsched.Query(app)
						if len(descs) == 0 || descs[0].Partner >= 0 {
							break
						}
						loggedDrive(app, 0)
					}
					run.Status = append(run.Status, "env")
					continue
				}
				runOp(c, *e.Op)
				run.Status = append(run.Status, "env")
				continue
			}
			if tid < 0 {
				panic("seq: event " + e.String() + " has no thread")
			}
			var headBefore []any
			tickBefore := 0
			var costsBefore []ristretto.VerifCost
			if e.K == "applier" {
				costsBefore = c.PolicyCosts()
				headBefore = c.BufShadow()
				tickBefore = tickPending()
				if spec.LogEstimates && len(headBefore) > 0 {
					if it, ok := ristretto.VerifItem[int64](headBefore[0]); ok && it.Flag == 0 && !it.IsWait {
						vsched.Log(evEst, int64(it.Key), c.Estimate(it.Key), 1)
						for _, kc := range c.Dump().Costs {
							vsched.Log(evEst, int64(kc.Key), c.Estimate(kc.Key), 0)
						}
					}
				}
			}
			var qBefore []any
			if e.K == "op" || e.K == "resume" {
				qBefore = c.BufShadow()
			}
			if e.K == "op" {
				vsched.Send(boxes[e.T], *e.Op)
			}
			st = vsched.Drive(tid, pick)
			ci := 0
			for st == vsched.DriveChoice {
				if ci >= len(e.Choices) {
					run.NeedChoice = vsched.DriveChoices()
					break
				}
				st = vsched.Drive(tid, e.Choices[ci])
				ci++
			}
			if run.NeedChoice > 0 {
				run.Status = append(run.Status, "choice")
				return // the search re-runs this history with the choice appended
			}
			if (e.K == "op" || e.K == "resume") && st == vsched.DriveBlocked && !inOp[e.T] {
				st = vsched.DriveYielded // back at the mailbox: the call completed
			}
			if e.K == "op" || e.K == "resume" {
				// what this client step appended to the write buffer (nothing is consumed during a
				// client step; a Clear that drains the buffer is recognised by the broken prefix)
				if qAfter := c.BufShadow(); len(qAfter) > len(qBefore) {
					same := true
					for i := range qBefore {
						same = same && qBefore[i] == qAfter[i]
					}
					if same {
						for _, x := range qAfter[len(qBefore):] {
							if it, ok := ristretto.VerifItem[int64](x); ok {
								v, _ := it.Value.(int64)
								fl := int64(it.Flag)
								if it.IsWait {
									fl = 3
								}
								vsched.Log(evEnq, int64(it.Key), v, fl)
							}
						}
					}
				}
			}
			run.Status = append(run.Status, st.String())
			if after := c.BufShadow(); e.K == "applier" && len(headBefore) > 0 && (len(after) == 0 || after[0] != headBefore[0]) {
				// the applier consumed the head of the write buffer: log what it was
				if it, ok := ristretto.VerifItem[int64](headBefore[0]); ok {
					v, _ := it.Value.(int64)
					fl := int64(it.Flag)
					if it.IsWait {
						fl = 3
					}
					vsched.Log(evApplied, int64(it.Key), v, fl)
					vsched.Log(evItemCost, int64(it.Key), it.Cost, 0)
				}
			}
			if e.K == "applier" {
				// accounting changes made by this step
				before := map[uint64]int64{}
				for _, kc := range costsBefore {
					before[kc.Key] = kc.Cost
				}
				for _, kc := range c.PolicyCosts() {
					if old, had := before[kc.Key]; !had {
						vsched.Log(evCost, int64(kc.Key), -1, kc.Cost)
					} else if old != kc.Cost {
						vsched.Log(evCost, int64(kc.Key), old, kc.Cost)
					}
				}
				if tickAfter := tickPending(); tickAfter < tickBefore {
					vsched.Log(evSweep, 0, 0, 0) // the applier consumed a tick: one expiry sweep ran
				}
			}
			// a client is blocked exactly when it is in the middle of a call (it may have been
			// released as the passive partner of another thread's step)
			for ci := range clientBlocked {
				clientBlocked[ci] = inOp[ci]
			}
		}
		run.Post = snapshot()
		if len(hist) == 0 {
			run.Pre = run.Post
		}
		// enabled daemon / resume events
		pol, app := daemonTids()
		for ci, b := range clientBlocked {
			if b && len(vsched.Query(clients[ci])) > 0 {
				run.Enabled = append(run.Enabled, SeqEvent{K: "resume", T: ci})
			}
		}
		if app >= 0 {
			for i, d := range vsched.Query(app) {
				run.Enabled = append(run.Enabled, SeqEvent{K: "applier", Pick: i, Desc: descOf(d)})
			}
		}
		if pol >= 0 {
			for i, d := range vsched.Query(pol) {
				run.Enabled = append(run.Enabled, SeqEvent{K: "policy", Pick: i, Desc: descOf(d)})
			}
		}
		if spec.Probe != nil {
			run.Events = vsched.Events() // the probe may look at what the history did
			spec.Probe(c, run)
		}
	}
	res := vsched.Run(body, zeroChooser{}, vsched.Options{MaxSteps: 200000, Trace: os.Getenv("VERIF_TRACE") != ""})
	for _, l := range res.Trace {
		fmt.Println("      ", l)
	}
	if vsched.EventsOverflow() {
		panic("seq: the observation log overflowed (raise vsched.MaxEvents); refusing to judge a truncated history")
	}
	run.Events = res.Events
	run.Outcome = res.Outcome
	run.Detail = res.Detail
	return run
}

func descOf(d vsched.TransDesc) string {
	if d.Kind == vsched.OpChan {
		dir := "recv"
		if d.Send {
			dir = "send"
		}
		s := fmt.Sprintf("%s-chan%d", dir, d.ChanSeq)
		if d.Partner >= 0 {
			s += "-rdv"
		}
		return s
	}
	return d.Kind.String()
}

// ----- canonical state key ---------------------------------------------------------------------------

type renamer struct {
	m map[int64]int64
}

func (r *renamer) ren(v int64) int64 {
	if v == 0 {
		return 0
	}
	if x, ok := r.m[v]; ok {
		return x
	}
	x := int64(len(r.m) + 1)
	r.m[v] = x
	return x
}

func stateKey(spec *SeqSpec, run *SeqRun) string {
	d := run.Post
	rn := &renamer{m: map[int64]int64{}}
	var b strings.Builder
	base := vtime.Base
	rel := func(t time.Time) int64 {
		if t.IsZero() {
			return -1
		}
		return t.Sub(base).Nanoseconds()
	}
	fmt.Fprintf(&b, "clk=%d tick=%d cl=%s dm=%d closed=%v|", d.ClockNs, d.TickPending, d.ClientState, d.Daemons, d.IsClosed)
	for _, e := range d.Store {
		fmt.Fprintf(&b, "s%d/%d=%d@%d,", e.Key, e.Conflict, rn.ren(e.Value), rel(e.Expiration))
	}
	fmt.Fprintf(&b, "|used=%d max=%d|", d.Used, d.MaxCost)
	for _, c := range d.Costs {
		fmt.Fprintf(&b, "c%d=%d,", c.Key, c.Cost)
	}
	fmt.Fprintf(&b, "|lc=%d|", d.LastCl)
	for _, e := range d.Buckets {
		fmt.Fprintf(&b, "b%d:%d/%d,", e.Bucket, e.Key, e.Conflict)
	}
	b.WriteString("|buf:")
	for _, it := range d.SetBufItems {
		v, _ := it.Value.(int64)
		fmt.Fprintf(&b, "[%d %d/%d v%d c%d @%d w%v]", it.Flag, it.Key, it.Conflict, rn.ren(v), it.Cost, rel(it.Expiration), it.IsWait)
	}
	fmt.Fprintf(&b, "|ich:%v|ring:%x|admit:%x|extras:%x|met:%v|", d.ItemsCh, d.Ring, d.Admit, d.Extras, d.Metrics)
	// which daemon events are enabled is a function of the above, but cheap to include
	for _, e := range run.Enabled {
		b.WriteString(e.K + e.Desc + ",")
	}
	if spec.Abstract != nil {
		b.WriteString("|abs:")
		b.WriteString(spec.Abstract(run, rn.ren))
	}
	h := sha1.Sum([]byte(b.String()))
	return string(h[:])
}

// ----- search -----------------------------------------------------------------------------------------

type SeqStats struct {
	States, Transitions, Replays int64
	MaxDepth                     int
	Complete                     bool
	CapHit                       string
	Outcomes                     map[string]int64
}

// seqSearch runs the breadth-first search for one specification.
func seqSearch(p *Prop, j *Job, spec *SeqSpec) *JobResult {
	res := &JobResult{Name: j.name(), Outcomes: map[string]int64{}, Complete: true}
	deadline := time.Time{}
	if j.Seconds > 0 {
		deadline = time.Now().Add(time.Duration(j.Seconds * float64(time.Second)))
	}
	seen := map[string]bool{}
	// a node is one explored state: the last event of its shortest history, a pointer to its
	// parent, and the events that can follow it (histories are rebuilt by walking the parents)
	type node struct {
		parent *node
		ev     SeqEvent
		depth  int
		cands  []SeqEvent
	}
	histOf := func(n *node) []SeqEvent {
		h := make([]SeqEvent, n.depth)
		for x := n; x != nil && x.depth > 0; x = x.parent {
			h[x.depth-1] = x.ev
		}
		return h
	}
	root := runHistory(spec, nil)
	if root.Outcome != vsched.Done {
		res.Err = "initial state: " + root.Outcome.String() + " " + root.Detail
		return res
	}
	seen[stateKey(spec, root)] = true
	rootNode := &node{}
	// candidate client / env events after a run: env ops always, client ops for idle clients
	candidates := func(r *SeqRun) []SeqEvent {
		var out []SeqEvent
		n := spec.Clients
		if n < 1 {
			n = 1
		}
		for t := 0; t < n; t++ {
			var ops []Op
			if t == 0 {
				ops = spec.Alphabet(r)
			} else if spec.AlphabetT != nil {
				ops = spec.AlphabetT(r, t)
			}
			idle := t >= len(r.Post.ClientState) || r.Post.ClientState[t] == 'i'
			for _, o := range ops {
				o := o
				if o.K == "advance" || o.K == "tick" || o.K == "sweep" || o.K == "drain" || o.K == "advance+sweep" {
					if t == 0 {
						out = append(out, SeqEvent{K: "env", Op: &o})
					}
					continue
				}
				if idle {
					out = append(out, SeqEvent{K: "op", T: t, Op: &o})
				}
			}
		}
		return out
	}
	rootNode.cands = append(candidates(root), root.Enabled...)
	frontier := []*node{rootNode}
	seenViol := map[string]bool{}
	depth := 0
	res.States = 1
	for len(frontier) > 0 && depth < spec.MaxDepth {
		depth++
		var next []*node
		for _, nd := range frontier {
			if !deadline.IsZero() && time.Now().After(deadline) {
				res.Complete, res.CapHit = false, fmt.Sprintf("deadline at depth %d", depth)
				frontier = nil
				next = nil
				break
			}
			cands := nd.cands
			nd.cands = nil
			base := histOf(nd)
			for ci := 0; ci < len(cands); ci++ {
				e := cands[ci]
				h := append(append([]SeqEvent(nil), base...), e)
				// value ids: unique per history position
				for i := range h {
					if h[i].Op != nil && (h[i].Op.K == "set" || h[i].Op.K == "setttl") {
						o := *h[i].Op
						o.Val = int64(i + 1)
						h[i].Op = &o
					}
				}
				run := runHistory(spec, h)
				res.Execs++
				if len(res.Sample) == 0 && len(h) >= 3 {
					res.Sample = []string{histString(h)} // an actual history of this run (replaced by a deeper one at the end)
				}
				if run.NeedChoice > 0 {
					for a := 0; a < run.NeedChoice; a++ {
						e2 := e
						e2.Choices = append(append([]int(nil), e.Choices...), a)
						cands = append(cands, e2)
					}
					continue
				}
				res.Points++
				var viols []Viol
				switch run.Outcome {
				case vsched.Done:
					if spec.Outside != nil && spec.Outside(run) {
						res.Outcomes["outside-antecedent"]++
						continue
					}
					viols = spec.Oracle(run)
				case vsched.Deadlock:
					viols = []Viol{{Key: p.ID + "/deadlock", What: run.Detail}}
				case vsched.Livelock:
					viols = []Viol{{Key: p.ID + "/livelock", What: run.Detail}}
				case vsched.Panicked:
					viols = []Viol{{Key: p.ID + "/panic:" + panicKey(run.Detail), What: firstLine(run.Detail)}}
				default:
					res.Err = "seq: " + run.Outcome.String() + " " + run.Detail
					return res
				}
				label := "ok"
				if len(viols) > 0 {
					label = "VIOLATION " + viols[0].Key
					res.ViolCount += int64(len(viols))
					for _, v := range viols {
						if seenViol[v.Key] {
							continue
						}
						seenViol[v.Key] = true
						v.What = v.What + "   history: " + histString(h)
						res.Viols = append(res.Viols, ViolReport{Viol: v, SeqHist: h, SeqCfg: &spec.Cfg, Stable: true, Events: fmtEvents(run.Events)})
					}
					res.Outcomes[label]++
					continue // a violating state is not expanded
				}
				res.Outcomes[label]++
				if run.Outcome != vsched.Done {
					continue
				}
				k := stateKey(spec, run)
				if seen[k] {
					continue
				}
				seen[k] = true
				res.States++
				if len(h) > res.MaxDepth {
					res.MaxDepth = len(h)
				}
				if spec.Terminal != nil && spec.Terminal(run) {
					continue
				}
				next = append(next, &node{parent: nd, ev: h[len(h)-1], depth: len(h), cands: append(candidates(run), run.Enabled...)})
			}
		}
		frontier = next
	}
	if len(frontier) > 0 && res.Complete {
		// depth bound reached with states left to expand: complete within the bound
		res.CapHit = ""
	}
	if len(frontier) > 0 {
		res.Sample = []string{histString(histOf(frontier[len(frontier)/2]))}
	}
	res.Outcomes[fmt.Sprintf("states=%d", res.States)] = 1
	return res
}

var _ = explore.Replay
var _ = sort.Ints

// SeqJob names one specification of a property's sequential search.
type SeqJob struct {
	Name    string
	Spec    *SeqSpec
	Seconds float64
}

func findSeq(p *Prop, tier, name string) *SeqSpec {
	if p.SeqByName != nil {
		if s := p.SeqByName(name); s != nil {
			return s
		}
	}
	if p.Seq == nil {
		return nil
	}
	for _, t := range []string{tier, "thorough", "quick"} {
		for _, sj := range p.Seq(t) {
			if sj.Name == name {
				return sj.Spec
			}
		}
	}
	return nil
}

func vtimeBase() time.Time { return vtime.Base }
