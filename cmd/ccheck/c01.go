package main

import (
	"fmt"

	"verif/shim/vsched"
)

// C01 — Get returns only values that were written under that very key.
//
// Enumerated: all interleavings within the preemption bound of 2 client threads (1-2 ops each
// from {Set, SetWithTTL, Get, Del, Clear}) + applier + policy goroutine, over three key
// families: (a) int keys sharing a shard (1, 257) and a third key with MaxCost small enough
// for evictions and rejections; (b) keys engineered through Config.KeyToHash to collide on the
// primary hash with distinct non-zero conflicts; (c) string / []byte / uint64 keys.
// Oracle: every Get that reports found returns a value id supplied by a Set/SetWithTTL of the
// SAME logical key whose call began before the Get returned.

func init() {
	registerProp(&Prop{ID: "C01", Level: "model_checking",
		Rule: "stateless DFS over all schedules (preemption bound per scenario) of 2 client threads x 1-2 ops + applier + policy goroutine on the real cache; " +
			"oracle on every execution: each found Get(k) returns a value id passed to a Set/SetWithTTL of the same logical key that began earlier; " +
			"distinct = distinct (Get results, callback multiset) outcome vectors",
		Assume: []string{"schedule points at sync operations are sufficient for race-free code (C08 checks race freedom separately)",
			"bounds: 2 client threads, <=2 ops each, preemption bound as listed per scenario"},
		Jobs:    c01Jobs,
		Oracle:  c01Oracle,
		Outcome: getOutcome,
		Seq:     c01Seq,
	})
}

// c01Seq: explicit-state search over single-client histories on keys engineered to collide on
// the primary hash (1 and 2) plus a third key, with TTLs, clock advances and sweeps and every
// applier lag: multi-step sequences (expired-but-unswept entries, tombstones overtaking Sets,
// slot take-over) that the two-thread DFS scenarios do not reach.
func c01Seq(tier string) []SeqJob {
	var out []SeqJob
	mkT := func(name string, keyType string, depth int, secs float64) {
		keys := []int{1, 2}
		alpha := []Op{{K: "set", Key: 1, Cost: 1}, {K: "set", Key: 2, Cost: 1}, {K: "del", Key: 1}, {K: "setttl", Key: 2, Cost: 1, TTL: 1000}, {K: "drain"}, {K: "advance", N: 2000}}
		spec := &SeqSpec{Cfg: Cfg{NumCounters: 16, MaxCost: 3, BufferItems: 2, SetBuf: 3, KeyType: keyType, TTLTick: 2, BucketSecs: 1}, MaxDepth: depth,
			Alphabet: func(r *SeqRun) []Op { return alpha },
			Oracle: func(r *SeqRun) []Viol {
				return append(provenance(r.Events, "C01"), servedAfterExit(r.Events, "C01")...)
			},
			Probe: func(c seqCache, r *SeqRun) {
				for _, k := range keys {
					runOp(c, Op{K: "get", Key: k})
				}
			},
		}
		out = append(out, SeqJob{Name: name, Spec: spec, Seconds: secs})
	}
	mk := func(name string, hash string, keys []int, depth int, secs float64) {
		var alpha []Op
		for _, k := range keys {
			alpha = append(alpha, Op{K: "set", Key: k, Cost: 1}, Op{K: "del", Key: k}, Op{K: "setttl", Key: k, Cost: 1, TTL: 1000})
		}
		alpha = append(alpha, Op{K: "advance", N: 2000}, Op{K: "sweep"}, Op{K: "drain"})
		spec := &SeqSpec{Cfg: Cfg{NumCounters: 16, MaxCost: 3, BufferItems: 2, SetBuf: 3, KeyHash: hash, TTLTick: 2, BucketSecs: 1}, MaxDepth: depth,
			Alphabet: func(r *SeqRun) []Op { return alpha },
			Oracle: func(r *SeqRun) []Viol {
				return append(provenance(r.Events, "C01"), servedAfterExit(r.Events, "C01")...)
			},
			// white-box: what Get WOULD return for every key of the alphabet is judged through real
			// Gets issued by the probe at every state (they do not feed back into the search state,
			// which was snapshotted before)
			Probe: func(c seqCache, r *SeqRun) {
				for _, k := range keys {
					runOp(c, Op{K: "get", Key: k})
				}
			},
		}
		out = append(out, SeqJob{Name: name, Spec: spec, Seconds: secs})
	}
	if tier == "quick" {
		mk("seq/collide/keys1,2/depth6", "collide", []int{1, 2}, 6, 40)
		mk("seq/collide/keys1,2,3/depth4", "collide", []int{1, 2, 3}, 4, 40)
		mkT("seq/long-string-keys-differing-in-the-tail/depth5", "longstring-tail", 5, 40)
		mkT("seq/long-byte-keys-differing-in-the-tail/depth4", "longbytes-tail", 4, 40)
		mkT("seq/long-string-keys-differing-in-the-head/depth4", "longstring-head", 4, 40)
		mkT("seq/byte-keys-built-in-a-reused-buffer/depth4", "bytes-reused", 4, 40)
	} else {
		mk("seq/collide/keys1,2/depth9", "collide", []int{1, 2}, 9, 560)
		mk("seq/collide/keys1,2,3/depth7", "collide", []int{1, 2, 3}, 7, 560)
		mk("seq/default-hash/keys1,257/depth8", "", []int{1, 257}, 8, 560)
		mkT("seq/long-string-keys-differing-in-the-tail/depth8", "longstring-tail", 8, 560)
		mkT("seq/long-byte-keys-differing-in-the-tail/depth7", "longbytes-tail", 7, 560)
		mkT("seq/long-string-keys-differing-in-the-head/depth7", "longstring-head", 7, 560)
		mkT("seq/byte-keys-built-in-a-reused-buffer/depth7", "bytes-reused", 7, 560)
		mkT("seq/short-string-keys/depth7", "string", 7, 560)
	}
	return out
}

func c01Oracle(x *Exec, res *vsched.Result, job *Job) []Viol {
	return provenance(res.Events, "C01")
}

// provenance checks every found Get against the Set calls logged before its return.
func provenance(evs []vsched.Event, id string) []Viol {
	type setInfo struct {
		key int64
		pos int
	}
	sets := map[int64]setInfo{}
	var out []Viol
	for i, e := range evs {
		switch e.Kind {
		case evSetCall:
			sets[e.B] = setInfo{e.A, i}
		case evGetRet:
			if e.C == 0 {
				if e.B != 0 {
					out = append(out, Viol{Key: id + "/miss-with-nonzero-value", What: fmt.Sprintf("Get(%d) reported not found but returned value %d", e.A, e.B)})
				}
				continue
			}
			s, ok := sets[e.B]
			switch {
			case !ok:
				out = append(out, Viol{Key: id + "/value-nobody-stored", What: fmt.Sprintf("Get(%d) returned found with value %d that no Set call supplied before the Get returned", e.A, e.B)})
			case s.key != e.A:
				out = append(out, Viol{Key: id + "/value-of-other-key", What: fmt.Sprintf("Get(%d) returned value %d, which was written under key %d", e.A, e.B, s.key)})
			}
		}
	}
	return out
}

// getOutcome: outcome vector = results of all Gets + multiset of callbacks (for counting
// distinct behaviours).
func getOutcome(x *Exec, res *vsched.Result) string {
	s := ""
	nontrivial := false
	cb := map[string]int{}
	for _, e := range res.Events {
		switch e.Kind {
		case evGetRet:
			s += fmt.Sprintf("G%d=%d/%d ", e.A, e.B, e.C)
		case evSetRet:
			s += fmt.Sprintf("S%d=%d ", e.B, e.C)
		case evOnEvict:
			cb[fmt.Sprintf("ev%d", e.B)]++
			nontrivial = true
		case evOnReject:
			cb[fmt.Sprintf("rj%d", e.B)]++
			nontrivial = true
		case evOnExit:
			cb[fmt.Sprintf("ex%d", e.A)]++
		}
	}
	s += fmt.Sprint(cb)
	if !nontrivial && len(cb) == 0 {
		return "trivial " + s
	}
	return s
}

func c01Jobs(tier string) []Job {
	var jobs []Job
	bound := 3
	if tier == "thorough" {
		bound = 4
	}
	small := Cfg{NumCounters: 16, MaxCost: 2, BufferItems: 2, SetBuf: 2}
	epi := []Op{{K: "wait"}, {K: "get", Key: 1}, {K: "get", Key: 2}, {K: "get", Key: 257}}
	add := func(name string, cfg Cfg, setup []Op, a, b []Op, bnd int) {
		jobs = append(jobs, Job{Scenario: &Scenario{Name: name, Cfg: cfg, Setup: cp(setup), Threads: [][]Op{cp(a), cp(b)}, Epilogue: cp(epi)}, Bound: bnd})
	}
	set := func(k int) Op { return Op{K: "set", Key: k, Cost: 1} }
	setttl := func(k int) Op { return Op{K: "setttl", Key: k, Cost: 1, TTL: 3000} }
	get := func(k int) Op { return Op{K: "get", Key: k} }
	del := func(k int) Op { return Op{K: "del", Key: k} }
	resident := []Op{set(1), set(257), {K: "wait"}}

	// (a) same shard, capacity 2 (evictions / rejections)
	progsA := [][]Op{{set(1), get(1)}, {set(257), get(1)}, {set(2), get(257)}, {del(1), get(257)}, {get(1), get(257)}, {setttl(1), get(1)}}
	for i, a := range progsA {
		for j, b := range progsA {
			if j < i {
				continue
			}
			add(fmt.Sprintf("a/resident/%d-%d", i, j), small, resident, a, b, bound)
			if tier == "thorough" || (i == 0 && j <= 3) {
				add(fmt.Sprintf("a/empty/%d-%d", i, j), small, nil, a, b, bound)
			}
		}
	}
	// Clear racing with readers / writers (Clear takes every shard lock: bound 1 in quick)
	cb := 2
	if tier == "thorough" {
		cb = 3
	}
	add("a/clear-vs-set", small, resident, []Op{{K: "clear"}, get(1)}, []Op{set(1), get(1)}, cb)
	add("a/clear-vs-get", small, resident, []Op{{K: "clear"}}, []Op{get(1), get(257)}, cb)

	// (b) engineered primary-hash collisions: keys 1 and 2 -> (7,11) / (7,12); 3 -> (8,13)
	coll := small
	coll.KeyHash = "collide"
	coll.MaxCost = 3
	progsB := [][]Op{{set(1), get(2)}, {set(2), get(1)}, {del(2), get(1)}, {get(1), get(2)}, {set(2), get(2)}, {setttl(2), del(1)}, {del(1), set(2)}}
	for i, a := range progsB {
		for j, b := range progsB {
			if j < i {
				continue
			}
			add(fmt.Sprintf("b/one-resident/%d-%d", i, j), coll, []Op{set(1), {K: "wait"}}, a, b, bound)
			if tier == "thorough" || i == j {
				add(fmt.Sprintf("b/empty/%d-%d", i, j), coll, nil, a, b, bound)
			}
		}
	}
	// (d) an EXPIRED, unswept entry of key 1 (colliding hashes): the lookup's expiry path races a
	// Del of the key, a Del followed by a Set of the colliding key, and rewrites of the key
	collT := coll
	collT.TTLTick, collT.BucketSecs = 2, 1
	expired := []Op{{K: "setttl", Key: 1, Cost: 1, TTL: 1000}, {K: "wait"}, {K: "advance", N: 3000}}
	for i, w := range [][]Op{{del(1), set(2)}, {del(1)}, {set(1)}, {setttl(1), del(1)}, {set(2), del(1)}} {
		add(fmt.Sprintf("d/expired-unswept/%d", i), collT, expired, w, []Op{get(1), get(1)}, bound)
	}
	// (c) other key types with the default hash
	for _, kt := range []string{"string", "bytes", "uint64", "longstring-tail", "longstring-head", "longbytes-tail", "bytes-reused"} {
		c := small
		c.KeyType = kt
		add("c/"+kt+"/set-get", c, []Op{set(1), {K: "wait"}}, []Op{set(2), get(1)}, []Op{set(1), get(2)}, bound)
		add("c/"+kt+"/del-get", c, []Op{set(1), set(2), {K: "wait"}}, []Op{del(1), get(2)}, []Op{get(1), set(2)}, bound)
	}
	return jobs
}

func cp(ops []Op) []Op { return append([]Op(nil), ops...) }
