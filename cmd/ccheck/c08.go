package main

import (
	"fmt"

	"verif/shim/vsched"
)

// C08 — concurrent use of the public API is free of data races, panics and deadlocks.
//
// Enumerated: every unordered pair of operation kinds of the property's list, two client
// threads on conflicting keys after a prefix that leaves resident keys and a pending (still
// buffered) write, for setBuf sizes 1 (buffer full at start) and 2, metrics on, TTL entries
// present; + applier + policy goroutine. Two builds of the same scenarios:
//   normal build — every schedule within the preemption bound: no call panics, no deadlock
//                  (every client thread finishes), step horizon never hit;
//   -race build  — every schedule within a (smaller) bound is executed under the Go race
//                  detector; the scheduler's hand-offs are invisible to it (DESIGN.md §2.6), so
//                  any report is a race of the code under test on that schedule.

var c08Kinds = []string{"get", "set", "setttl", "del", "getttl", "iter", "wait", "clear", "updmax", "maxcost", "remaining", "metrics"}

// extra pairs beyond the 78: UpdateMaxCost LOWERING the capacity below the cost of an item that
// is being admitted (the admission loop re-reads MaxCost on every turn)
var c08Extra = [][2]string{{"updmaxlow", "setbig"}, {"updmaxlow", "set"}, {"updmaxlow", "clear"}}

func c08Op(kind string, key int) Op {
	switch kind {
	case "set":
		return Op{K: "set", Key: key, Cost: 1}
	case "setttl":
		return Op{K: "setttl", Key: key, Cost: 1, TTL: 2000}
	case "updmax":
		return Op{K: "updmax", N: 3}
	case "updmaxlow":
		return Op{K: "updmax", N: 1}
	case "setbig":
		return Op{K: "set", Key: key, Cost: 2}
	}
	return Op{K: kind, Key: key}
}

func heavy(kind string) bool { return kind == "clear" || kind == "iter" }

func c08Jobs(tier string) []Job {
	var jobs []Job
	epi := []Op{{K: "wait"}, {K: "get", Key: 1}}
	for _, sb := range []int{1, 2} {
		base := Cfg{NumCounters: 16, MaxCost: 2, BufferItems: 2, SetBuf: sb, TTLTick: 2, BucketSecs: 1}
		cfg := base
		setup := []Op{{K: "set", Key: 1, Cost: 1}, {K: "setttl", Key: 257, Cost: 1, TTL: 5000}, {K: "wait"}, {K: "get", Key: 1}, {K: "set", Key: 2, Cost: 1}}
		for i, a := range c08Kinds {
			for j, b := range c08Kinds {
				if j < i {
					continue
				}
				if sb == 2 && tier != "thorough" && !(a == "clear" || b == "clear" || a == "wait" || b == "wait" || a == "del" || b == "del" || a == "set" || b == "set") {
					continue // quick: the second buffer size only for the pairs involving Clear / Wait / Del / Set
				}
				// metrics on for the pairs that read them and for the second buffer size
				cfg := base
				cfg.Metrics = a == "metrics" || b == "metrics" || sb == 2
				ta := []Op{c08Op(a, 1), {K: "get", Key: 1}}
				tb := []Op{c08Op(b, 1), c08Op("set", 257)}
				bound := 2
				rbound := 1
				if heavy(a) || heavy(b) {
					bound, rbound = 1, 0
				}
				if tier == "thorough" {
					bound++
					rbound++
				}
				name := fmt.Sprintf("setbuf%d/%s|%s", sb, a, b)
				sc := &Scenario{Name: name, Cfg: cfg, Setup: cp(setup), Threads: [][]Op{ta, tb}, Epilogue: cp(epi)}
				jobs = append(jobs, Job{Scenario: sc, Bound: bound})
				if sb == 2 && tier != "thorough" {
					continue // quick: the race build runs the first buffer size only
				}
				sc2 := *sc
				sc2.Setup, sc2.Epilogue = cp(setup), cp(epi)
				sc2.Threads = [][]Op{cp(ta), cp(tb)}
				jobs = append(jobs, Job{Scenario: &sc2, Bound: rbound, Race: true})
			}
		}
		for _, pr := range c08Extra {
			ta := []Op{c08Op(pr[0], 1), {K: "get", Key: 1}}
			tb := []Op{c08Op(pr[1], 3), c08Op("set", 257)}
			bound, rbound := 3, 1
			if heavy(pr[1]) {
				bound, rbound = 1, 0
			}
			full := []Op{{K: "set", Key: 1, Cost: 1}, {K: "set", Key: 257, Cost: 1}, {K: "wait"}, {K: "get", Key: 1}}
			sc := &Scenario{Name: fmt.Sprintf("setbuf%d/%s|%s", sb, pr[0], pr[1]), Cfg: base, Setup: cp(full), Threads: [][]Op{ta, tb}, Epilogue: cp(epi)}
			sc.Cfg.SetBuf = 3
			jobs = append(jobs, Job{Scenario: sc, Bound: bound})
			if sb == 1 || tier == "thorough" {
				sc2 := *sc
				sc2.Setup, sc2.Epilogue = cp(full), cp(epi)
				sc2.Threads = [][]Op{cp(ta), cp(tb)}
				jobs = append(jobs, Job{Scenario: &sc2, Bound: rbound, Race: true})
			}
		}
		// sweep tick racing the API (the applier runs the expiry sweep)
		ttlSetup := []Op{{K: "setttl", Key: 1, Cost: 1, TTL: 1000}, {K: "set", Key: 257, Cost: 1}, {K: "wait"}, {K: "advance", N: 3000}}
		for _, b := range []string{"get", "set", "del", "getttl", "iter", "clear"} {
			bound, rbound := 2, 1
			if heavy(b) {
				bound, rbound = 1, 0
			}
			if tier == "thorough" {
				bound++
				rbound++
			}
			sc := &Scenario{Name: fmt.Sprintf("setbuf%d/sweep|%s", sb, b), Cfg: cfg, Setup: cp(ttlSetup), Threads: [][]Op{{{K: "tick"}, {K: "get", Key: 257}}, {c08Op(b, 1), c08Op("set", 1)}}, Epilogue: cp(epi)}
			jobs = append(jobs, Job{Scenario: sc, Bound: bound})
			if sb == 2 && tier != "thorough" {
				continue
			}
			sc2 := *sc
			sc2.Threads = [][]Op{cp(sc.Threads[0]), cp(sc.Threads[1])}
			jobs = append(jobs, Job{Scenario: &sc2, Bound: rbound, Race: true})
		}
	}
	// a FULL write buffer (capacity 1: one new item in the applier's hand, one buffered): Del and
	// Wait then park on their blocking send in the middle of the call, and the other thread's
	// call (Clear's stop / drain handshake above all) meets them there
	{
		cfg := Cfg{NumCounters: 16, MaxCost: 4, BufferItems: 2, SetBuf: 1, TTLTick: 2, BucketSecs: 1}
		setup := []Op{{K: "set", Key: 1, Cost: 1}, {K: "wait"}, {K: "set", Key: 2, Cost: 1}, {K: "set", Key: 3, Cost: 1}}
		pairs := [][2]string{{"del", "clear"}, {"wait", "clear"}, {"del", "del"}, {"del", "wait"}, {"del", "set"}, {"wait", "wait"}, {"del", "get"}, {"wait", "updmax"}}
		for _, pr := range pairs {
			bound, rbound := 2, 1
			if heavy(pr[0]) || heavy(pr[1]) {
				bound, rbound = 1, 0
			}
			if tier == "thorough" {
				bound++
				rbound++
			}
			ta := []Op{c08Op(pr[0], 1)}
			tb := []Op{c08Op(pr[1], 1), {K: "get", Key: 1}}
			sc := &Scenario{Name: fmt.Sprintf("fullbuffer/%s|%s", pr[0], pr[1]), Cfg: cfg, Setup: cp(setup), Threads: [][]Op{ta, tb}, Epilogue: cp(epi)}
			jobs = append(jobs, Job{Scenario: sc, Bound: bound})
			sc2 := *sc
			sc2.Setup, sc2.Epilogue = cp(setup), cp(epi)
			sc2.Threads = [][]Op{cp(ta), cp(tb)}
			jobs = append(jobs, Job{Scenario: &sc2, Bound: rbound, Race: true})
		}
	}
	// configuration variants of the property's quantifier: the smallest counter table (an aging
	// reset every 2 recorded accesses), Get buffers of 1 (every Get hands a batch to the policy
	// goroutine), no callbacks, internal cost on
	variants := []Cfg{
		{NumCounters: 2, MaxCost: 2, BufferItems: 1, SetBuf: 2, Metrics: true},
		{NumCounters: 3, MaxCost: 200, BufferItems: 1, SetBuf: 1, InternalCost: true, NoCallbacks: true},
	}
	vpairs := [][2]string{{"get", "get"}, {"get", "set"}, {"set", "set"}, {"get", "del"}, {"set", "wait"}, {"get", "metrics"}}
	if tier == "thorough" {
		vpairs = append(vpairs, [2]string{"get", "clear"}, [2]string{"set", "updmax"}, [2]string{"del", "del"}, [2]string{"setttl", "get"})
	}
	for vi, vc := range variants {
		for _, pr := range vpairs {
			bound, rbound := 2, 1
			if heavy(pr[0]) || heavy(pr[1]) {
				bound, rbound = 1, 0
			}
			setup := []Op{{K: "set", Key: 1, Cost: 1}, {K: "wait"}, {K: "get", Key: 1}, {K: "get", Key: 257}}
			ta := []Op{c08Op(pr[0], 1), {K: "get", Key: 257}}
			tb := []Op{c08Op(pr[1], 1), {K: "get", Key: 1}}
			sc := &Scenario{Name: fmt.Sprintf("variant%d/%s|%s", vi, pr[0], pr[1]), Cfg: vc, Setup: setup, Threads: [][]Op{ta, tb}, Epilogue: cp(epi)}
			jobs = append(jobs, Job{Scenario: sc, Bound: bound})
			sc2 := *sc
			sc2.Setup, sc2.Epilogue = cp(setup), cp(epi)
			sc2.Threads = [][]Op{cp(ta), cp(tb)}
			jobs = append(jobs, Job{Scenario: &sc2, Bound: rbound, Race: true})
		}
	}
	// three threads (thorough)
	if tier == "thorough" {
		cfg := Cfg{NumCounters: 16, MaxCost: 2, BufferItems: 2, SetBuf: 1, Metrics: true}
		setup := []Op{{K: "set", Key: 1, Cost: 1}, {K: "wait"}}
		triples := [][3]string{{"set", "del", "get"}, {"set", "wait", "del"}, {"set", "set", "wait"}, {"del", "del", "set"}, {"get", "get", "set"}, {"updmax", "set", "remaining"}}
		for _, t := range triples {
			sc := &Scenario{Name: fmt.Sprintf("3threads/%s|%s|%s", t[0], t[1], t[2]), Cfg: cfg, Setup: cp(setup),
				Threads: [][]Op{{c08Op(t[0], 1)}, {c08Op(t[1], 1)}, {c08Op(t[2], 1)}}, Epilogue: cp(epi)}
			jobs = append(jobs, Job{Scenario: sc, Bound: 3})
			sc2 := *sc
			sc2.Threads = [][]Op{cp(sc.Threads[0]), cp(sc.Threads[1]), cp(sc.Threads[2])}
			jobs = append(jobs, Job{Scenario: &sc2, Bound: 2, Race: true})
		}
	}
	return jobs
}

func init() {
	registerProp(&Prop{ID: "C08", Level: "model_checking",
		Rule: "stateless DFS over all schedules within the preemption bound of every unordered pair of the 12 API operation kinds (two client threads on conflicting keys, resident + pending entries, write buffer full or not, metrics on, TTL entries, sweep ticks) " +
			"on the real cache, in two builds: normal (oracle: no panic, no deadlock, no livelock, every call returns) and -race with scheduler hand-offs invisible to the detector (oracle: no race report on any explored schedule); " +
			"distinct = distinct outcome vectors (Get results + callback multisets)",
		Assume: []string{"2 client threads (3 in a few thorough scenarios): '2..64 goroutines' is covered for 2-3 only",
			"the Go race detector (happens-before, ThreadSanitizer runtime) is trusted; hand-off through //go:norace spinning under GOMAXPROCS(1) adds no happens-before edge except at thread end / Join, where a real program synchronises too"},
		Jobs:    c08Jobs,
		Oracle:  func(x *Exec, res *vsched.Result, job *Job) []Viol { return nil }, // panics / deadlocks / livelocks are judged generically
		Outcome: getOutcome,
	})
}
