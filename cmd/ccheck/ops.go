package main

import (
	"encoding/json"
	"fmt"
	"strings"
	"time"
	"unsafe"

	ristretto "github.com/dgraph-io/ristretto/v2"

	"verif/shim/vsched"
	"verif/shim/vtime"
)

// ----- scenario data model (JSON-able: replay files contain it verbatim) ---------------------------

// Cfg describes the cache under test.
type Cfg struct {
	NumCounters  int64  `json:"num_counters"`
	MaxCost      int64  `json:"max_cost"`
	BufferItems  int64  `json:"buffer_items"`
	SetBuf       int    `json:"set_buf"`
	Metrics      bool   `json:"metrics,omitempty"`
	InternalCost bool   `json:"internal_cost,omitempty"` // IgnoreInternalCost=false
	TTLTick      int64  `json:"ttl_tick_secs,omitempty"`
	BucketSecs   int64  `json:"bucket_secs,omitempty"`
	KeyHash      string `json:"key_hash,omitempty"`      // "" | "collide"
	CostFn       bool   `json:"cost_fn,omitempty"`       // Config.Cost = value%3+1
	ShouldUpdate string `json:"should_update,omitempty"` // "" | "refuse-even"
	KeyType      string `json:"key_type,omitempty"`      // "" (int) | "string" | "bytes" | "uint64"
	PoolPoints   bool   `json:"pool_points,omitempty"`
	MapOrder     string `json:"map_order,omitempty"` // "" | "rot" | "perm"
	NoCallbacks  bool   `json:"no_callbacks,omitempty"`
	LogLocks     bool   `json:"log_locks,omitempty"`
	MetricPoints bool   `json:"metric_points,omitempty"` // with Metrics: every atomic operation (the striped counters too) is a schedule point
}

// Op is one operation of a scenario thread.
type Op struct {
	K    string `json:"op"`
	Key  int    `json:"key,omitempty"`
	Val  int64  `json:"val,omitempty"` // assigned by the scenario builder, unique and non-zero
	Cost int64  `json:"cost,omitempty"`
	TTL  int64  `json:"ttl_ms,omitempty"`
	N    int64  `json:"n,omitempty"`
}

func (o Op) String() string {
	switch o.K {
	case "set":
		return fmt.Sprintf("Set(%d,v%d,c%d)", o.Key, o.Val, o.Cost)
	case "setttl":
		return fmt.Sprintf("SetWithTTL(%d,v%d,c%d,%dms)", o.Key, o.Val, o.Cost, o.TTL)
	case "get", "del", "getttl":
		return fmt.Sprintf("%s(%d)", o.K, o.Key)
	case "advance":
		return fmt.Sprintf("advance(%dms)", o.N)
	case "advance+sweep":
		return fmt.Sprintf("advance(%dms)+sweep", o.N)
	case "updmax":
		return fmt.Sprintf("UpdateMaxCost(%d)", o.N)
	case "iterstop":
		return fmt.Sprintf("IterValues(stop after %d)", o.N)
	}
	return o.K
}

// Scenario: set-up ops run frozen by the main thread, then the client threads run concurrently,
// then the epilogue runs frozen.
type Scenario struct {
	Name     string `json:"name"`
	Cfg      Cfg    `json:"cfg"`
	Setup    []Op   `json:"setup,omitempty"`
	Threads  [][]Op `json:"threads"`
	Epilogue []Op   `json:"epilogue,omitempty"`
	Yield    bool   `json:"yield,omitempty"` // voluntary (free) switch point after every op of a client thread
}

func (s *Scenario) JSON() string { b, _ := json.Marshal(s); return string(b) }

// number the values: unique, non-zero, readable: setup 1.., thread t op i -> 100*(t+1)+i+1, epilogue 900+
func (s *Scenario) Number() {
	n := int64(1)
	for i := range s.Setup {
		if s.Setup[i].K == "set" || s.Setup[i].K == "setttl" {
			s.Setup[i].Val = n
			n++
		}
	}
	for t := range s.Threads {
		for i := range s.Threads[t] {
			if k := s.Threads[t][i].K; k == "set" || k == "setttl" {
				s.Threads[t][i].Val = int64(100*(t+1) + i + 1)
			}
		}
	}
	for i := range s.Epilogue {
		if s.Epilogue[i].K == "set" || s.Epilogue[i].K == "setttl" {
			s.Epilogue[i].Val = int64(900 + i + 1)
		}
	}
}

// ----- observation log ---------------------------------------------------------------------------

const (
	evSetCall uint8 = iota + 1 // A=key B=val C=ttl_ms
	evSetRet                   // A=key B=val C=ok
	evGetCall                  // A=key
	evGetRet                   // A=key B=val C=found
	evDelCall                  // A=key
	evDelRet                   // A=key
	evWaitCall
	evWaitRet
	evClearCall
	evClearRet
	evCloseCall
	evCloseRet
	evOnExit    // A=val
	evOnEvict   // A=keyhash B=val C=cost
	evOnReject  // A=keyhash B=val C=cost
	evIterCall  // A=stop-after
	evIterVisit // A=val
	evIterRet
	evGetTTLCall // A=key
	evGetTTLRet  // A=key B=ns C=found
	evAdvance    // A=ms
	evTick
	evRemaining // A=value
	evMaxCost   // A=value
	evUpdMax    // A=value
	evMetrics   // A=hits B=misses
	evMark      // A=user defined: phase markers
	evShouldUpd // A=cur B=prev C=result
	evCostFn    // A=val
	evApplied   // A=keyhash B=val C=flag(0 new,1 delete,2 update,3 wait marker): the applier consumed this buffered item (sequential driver)
	evItemCost  // A=keyhash B=cost as enqueued: logged right after evApplied (sequential driver)
	evSweep     // the applier consumed a ticker tick, i.e. one expiry sweep ran (sequential driver)
	evEst       // A=keyhash B=estimate C=1 for the incoming item's key: TinyLFU estimates just before an applier step (sequential driver)
	evEnq       // A=keyhash B=val C=flag(0 new,1 delete,2 update,3 wait marker): a client call appended this item to the write buffer (sequential driver)
	evMapYield  // A=-1: a map range statement starts (B keys); else A=key handed to the loop body (only with SeqSpec.LogEstimates)
	evCost      // A=keyhash B=old cost (-1: newly accounted) C=new cost: accounting change made by an applier step (sequential driver)
	evPre       // A=key B=flags(1 resident, 2 pending as a new item) C=room; logged by the sequential driver before an op
)

var evNames = map[uint8]string{evSetCall: "Set?", evSetRet: "Set=", evGetCall: "Get?", evGetRet: "Get=", evDelCall: "Del?", evDelRet: "Del=",
	evWaitCall: "Wait?", evWaitRet: "Wait=", evClearCall: "Clear?", evClearRet: "Clear=", evCloseCall: "Close?", evCloseRet: "Close=",
	evOnExit: "OnExit", evOnEvict: "OnEvict", evOnReject: "OnReject", evIterCall: "Iter?", evIterVisit: "IterVisit", evIterRet: "Iter=",
	evGetTTLCall: "GetTTL?", evGetTTLRet: "GetTTL=", evAdvance: "advance", evTick: "tick", evRemaining: "Remaining=", evMaxCost: "MaxCost=",
	evUpdMax: "UpdateMaxCost", evMetrics: "metrics", evMark: "mark", evShouldUpd: "ShouldUpdate", evCostFn: "CostFn", evPre: "pre", evApplied: "applied", evSweep: "sweep", evItemCost: "itemcost", evCost: "cost", evEst: "estimate", evMapYield: "mapyield", evEnq: "enqueued"}

func fmtEvents(evs []vsched.Event) []string {
	out := make([]string, 0, len(evs))
	for _, e := range evs {
		out = append(out, fmt.Sprintf("step %d T%d t=%dms %s(%d,%d,%d)", e.Step, e.Tid, e.T/1e6, evNames[e.Kind], e.A, e.B, e.C))
	}
	return out
}

// ----- the cache under test, for any key type ------------------------------------------------------

// cacheAPI is the key-type independent view the interpreter uses.
type cacheAPI interface {
	Set(key int, val int64, cost int64) bool
	SetTTL(key int, val int64, cost int64, ttl time.Duration) bool
	Get(key int) (int64, bool)
	GetTTL(key int) (time.Duration, bool)
	Del(key int)
	Wait()
	Clear()
	Close()
	Iter(cb func(v int64) bool)
	MaxCost() int64
	UpdateMaxCost(int64)
	Remaining() int64
	Metrics() *ristretto.Metrics
	Hash(key int) (uint64, uint64)
	Dump() *Dump
	Cells() (closed, maxCost unsafe.Pointer)
	Account() (nkeys int, used, maxCost int64)
}

// Dump is the white-box state (taken only while every other thread is parked).
type Dump struct {
	Store    []ristretto.VerifEntry[int64]
	Costs    []ristretto.VerifCost
	Used     int64
	MaxCost  int64
	Buckets  []ristretto.VerifBucketEntry
	LastCl   int64
	SetBuf   int
	SetCap   int
	ItemsCh  int
	IsClosed bool
	// ClosedKnown: the closed flag was found white-box; otherwise the sequential driver sets
	// IsClosed from the history (a Close call has returned)
	ClosedKnown bool
	Metric   []uint64 // totals per metric type (nil when metrics are off)
}

type typedCache[K ristretto.Key] struct {
	c  *ristretto.Cache[K, int64]
	mk func(int) K
}

func (t *typedCache[K]) Set(k int, v, c int64) bool { return t.c.Set(t.mk(k), v, c) }
func (t *typedCache[K]) SetTTL(k int, v, c int64, d time.Duration) bool {
	return t.c.SetWithTTL(t.mk(k), v, c, d)
}
func (t *typedCache[K]) Get(k int) (int64, bool)            { return t.c.Get(t.mk(k)) }
func (t *typedCache[K]) GetTTL(k int) (time.Duration, bool) { return t.c.GetTTL(t.mk(k)) }
func (t *typedCache[K]) Del(k int)                          { t.c.Del(t.mk(k)) }
func (t *typedCache[K]) Wait()                              { t.c.Wait() }
func (t *typedCache[K]) Clear()                             { t.c.Clear() }
func (t *typedCache[K]) Close()                             { t.c.Close() }
func (t *typedCache[K]) Iter(cb func(v int64) bool)         { t.c.IterValues(cb) }
func (t *typedCache[K]) MaxCost() int64                     { return t.c.MaxCost() }
func (t *typedCache[K]) UpdateMaxCost(n int64)              { t.c.UpdateMaxCost(n) }
func (t *typedCache[K]) Remaining() int64                   { return t.c.RemainingCost() }
func (t *typedCache[K]) Metrics() *ristretto.Metrics        { return t.c.Metrics }
func (t *typedCache[K]) Hash(k int) (uint64, uint64)        { return ristretto.VerifKeyToHash(t.c, t.mk(k)) }
func (t *typedCache[K]) Cells() (unsafe.Pointer, unsafe.Pointer) {
	return ristretto.VerifClosedFlag(t.c), ristretto.VerifMaxCostCell(t.c)
}
func (t *typedCache[K]) Account() (int, int64, int64) { return ristretto.VerifAccount(t.c) }
func (t *typedCache[K]) Dump() *Dump {
	d := &Dump{}
	d.Store = ristretto.VerifStore(t.c)
	d.Costs, d.Used, d.MaxCost = ristretto.VerifPolicy(t.c)
	d.Buckets, d.LastCl = ristretto.VerifExpiry(t.c)
	d.SetBuf, d.SetCap, d.ItemsCh = ristretto.VerifBuffers(t.c)
	d.IsClosed, d.ClosedKnown = ristretto.VerifIsClosed(t.c)
	d.Metric = ristretto.VerifMetricTotals(t.c.Metrics)
	return d
}

// collideHash: keys 1 and 2 share the primary hash 7 with conflicts 11 / 12; key 3 -> (8,13);
// others -> (1000+k, 2000+k). Used to engineer primary-hash collisions (C01).
func collideHash(k int) (uint64, uint64) {
	switch k {
	case 1:
		return 7, 11
	case 2:
		return 7, 12
	case 3:
		return 8, 13
	}
	return uint64(1000 + k), uint64(2000 + k)
}

func newTyped[K ristretto.Key](cfg Cfg, mk func(int) K, unmk func(K) int) (cacheAPI, error) {
	conf := &ristretto.Config[K, int64]{
		NumCounters:            cfg.NumCounters,
		MaxCost:                cfg.MaxCost,
		BufferItems:            cfg.BufferItems,
		Metrics:                cfg.Metrics,
		IgnoreInternalCost:     !cfg.InternalCost,
		TtlTickerDurationInSec: cfg.TTLTick,
	}
	if !cfg.NoCallbacks {
		conf.OnEvict = func(it *ristretto.Item[int64]) { vsched.Log(evOnEvict, int64(it.Key), it.Value, it.Cost) }
		conf.OnReject = func(it *ristretto.Item[int64]) { vsched.Log(evOnReject, int64(it.Key), it.Value, it.Cost) }
		conf.OnExit = func(v int64) { vsched.Log(evOnExit, v, 0, 0) }
	}
	if cfg.KeyHash == "collide" {
		conf.KeyToHash = func(k K) (uint64, uint64) { return collideHash(unmk(k)) }
	}
	if cfg.CostFn {
		// v%3+1 for the value ids the scenarios use (all > 0); the zero value - which nobody ever
		// sets - gets a cost no real value has, so that "cost of the wrong value" cannot coincide
		conf.Cost = func(v int64) int64 {
			vsched.Log(evCostFn, v, 0, 0)
			if v == 0 {
				return 4
			}
			return v%3 + 1
		}
	}
	if cfg.ShouldUpdate == "refuse-even" {
		conf.ShouldUpdate = func(cur, prev int64) bool {
			ok := cur%2 != 0
			r := int64(0)
			if ok {
				r = 1
			}
			vsched.Log(evShouldUpd, cur, prev, r)
			return ok
		}
	}
	c, err := ristretto.NewCache(conf)
	if err != nil {
		return nil, err
	}
	return &typedCache[K]{c: c, mk: mk}, nil
}

// newCache builds the cache described by cfg (inside a controlled thread).
func newCache(cfg Cfg, s *Scenario) cacheAPI {
	if cfg.SetBuf > 0 {
		ristretto.VerifSetBufSize(cfg.SetBuf)
	} else {
		ristretto.VerifSetBufSize(32)
	}
	if cfg.BucketSecs > 0 {
		ristretto.VerifSetBucketDuration(cfg.BucketSecs)
	} else {
		ristretto.VerifSetBucketDuration(5)
	}
	var c cacheAPI
	var err error
	switch cfg.KeyType {
	case "", "int":
		c, err = newTyped(cfg, func(k int) int { return k }, func(k int) int { return k })
	case "uint64":
		c, err = newTyped(cfg, func(k int) uint64 { return uint64(k) }, func(k uint64) int { return int(k) })
	case "string":
		c, err = newTyped(cfg, func(k int) string { return fmt.Sprintf("key-%d", k) }, func(k string) int { var n int; fmt.Sscanf(k, "key-%d", &n); return n })
	case "bytes":
		c, err = newTyped(cfg, func(k int) []byte { return []byte(fmt.Sprintf("key-%d", k)) }, func(k []byte) int { var n int; fmt.Sscanf(string(k), "key-%d", &n); return n })
	case "bytes-reused":
		// a caller that builds every key in the same scratch buffer (one per goroutine): same
		// address, same length (40 bytes), different content from call to call. The cache must
		// hash what the slice holds at the time of the call and keep nothing that aliases it.
		var bufs [vsched.MaxThreads + 1][]byte
		mk := func(k int) []byte {
			id := 0
			if t := vsched.Cur(); t != nil {
				id = t.ID() + 1
			}
			if bufs[id] == nil {
				bufs[id] = make([]byte, 40)
			}
			copy(bufs[id], fmt.Sprintf("scratch-buffer-key/%021d", k))
			return bufs[id]
		}
		c, err = newTyped(cfg, mk, func(b []byte) int { var n int; fmt.Sscanf(string(b), "scratch-buffer-key/%d", &n); return n })
	case "longstring-tail", "longstring-head", "longbytes-tail":
		// adversarial string keys: 3000 bytes long, all keys equal except for a few bytes at the
		// very end (tail) or at the very beginning (head)
		pad := strings.Repeat("ristretto-key-padding/", 140)[:3000]
		mk := func(k int) string {
			if cfg.KeyType == "longstring-head" {
				return fmt.Sprintf("%04d", k) + pad
			}
			return pad + fmt.Sprintf("%04d", k)
		}
		unmk := func(s string) int {
			var n int
			if cfg.KeyType == "longstring-head" {
				fmt.Sscanf(s[:4], "%d", &n)
			} else {
				fmt.Sscanf(s[len(s)-4:], "%d", &n)
			}
			return n
		}
		if cfg.KeyType == "longbytes-tail" {
			c, err = newTyped(cfg, func(k int) []byte { return []byte(mk(k)) }, func(b []byte) int { return unmk(string(b)) })
		} else {
			c, err = newTyped(cfg, mk, unmk)
		}
	default:
		panic("bad key type " + cfg.KeyType)
	}
	if err != nil {
		panic(err)
	}
	// Which atomic operations are schedule points. A load of a cell that no client thread of
	// this scenario can write commutes with everything, so the closed flag / max-cost cell are
	// points only when some thread calls Close / UpdateMaxCost. Without metrics every other
	// atomic operation is a point; with metrics only those two cells are (the 2816 striped
	// metric counters are performed atomically without a point: their adds commute and the
	// metric laws are judged at drained states).
	hasClose, hasUpd := false, false
	if s != nil {
		for _, th := range s.Threads {
			for _, o := range th {
				hasClose = hasClose || o.K == "close"
				hasUpd = hasUpd || o.K == "updmax"
			}
		}
	}
	// Clock reads are schedule points when the clock can move while threads run: always under
	// the sequential driver (clock advances are events of the history), in DFS scenarios only
	// when a thread (not the frozen set-up) advances it.
	hasAdv := s == nil
	if s != nil {
		for _, th := range s.Threads {
			for _, o := range th {
				hasAdv = hasAdv || strings.HasPrefix(o.K, "advance")
			}
		}
	}
	vsched.SetClockPoints(hasAdv)
	closed, maxc := c.Cells()
	set := map[uintptr]struct{}{}
	if closed == nil || maxc == nil {
		// the cells could not be located in this tree: every atomic operation is a schedule point,
		// except (unless the scenario asks for them) the striped metric counters, whose adds commute
		if !cfg.MetricPoints {
			for _, p := range ristretto.VerifMetricCellAddrs(c.Metrics()) {
				set[uintptr(p)] = struct{}{}
			}
		}
		vsched.ExemptAtomics(set)
	} else if c.Metrics() == nil || cfg.MetricPoints {
		if !hasClose {
			set[uintptr(closed)] = struct{}{}
		}
		if !hasUpd {
			set[uintptr(maxc)] = struct{}{}
		}
		vsched.ExemptAtomics(set)
	} else {
		if hasClose {
			set[uintptr(closed)] = struct{}{}
		}
		if hasUpd {
			set[uintptr(maxc)] = struct{}{}
		}
		vsched.OnlyAtomics(set)
	}
	return c
}

var _ = unsafe.Pointer(nil)

// ----- interpreter ------------------------------------------------------------------------------------

func b2i(b bool) int64 {
	if b {
		return 1
	}
	return 0
}

// runOp executes one operation against the cache and logs call / return observations.
func runOp(c cacheAPI, o Op) {
	switch o.K {
	case "set":
		vsched.Log(evSetCall, int64(o.Key), o.Val, 0)
		ok := c.Set(o.Key, o.Val, o.Cost)
		vsched.Log(evSetRet, int64(o.Key), o.Val, b2i(ok))
	case "setttl":
		vsched.Log(evSetCall, int64(o.Key), o.Val, o.TTL)
		ok := c.SetTTL(o.Key, o.Val, o.Cost, time.Duration(o.TTL)*time.Millisecond)
		vsched.Log(evSetRet, int64(o.Key), o.Val, b2i(ok))
	case "get":
		vsched.Log(evGetCall, int64(o.Key), 0, 0)
		v, ok := c.Get(o.Key)
		vsched.Log(evGetRet, int64(o.Key), v, b2i(ok))
	case "getttl":
		vsched.Log(evGetTTLCall, int64(o.Key), 0, 0)
		d, ok := c.GetTTL(o.Key)
		vsched.Log(evGetTTLRet, int64(o.Key), int64(d), b2i(ok))
	case "del":
		vsched.Log(evDelCall, int64(o.Key), 0, 0)
		c.Del(o.Key)
		vsched.Log(evDelRet, int64(o.Key), 0, 0)
	case "wait":
		vsched.Log(evWaitCall, 0, 0, 0)
		c.Wait()
		vsched.Log(evWaitRet, 0, 0, 0)
	case "clear":
		vsched.Log(evClearCall, 0, 0, 0)
		c.Clear()
		vsched.Log(evClearRet, 0, 0, 0)
	case "close":
		vsched.Log(evCloseCall, 0, 0, 0)
		c.Close()
		vsched.Log(evCloseRet, 0, 0, 0)
	case "iter":
		vsched.Log(evIterCall, -1, 0, 0)
		c.Iter(func(v int64) bool { vsched.Log(evIterVisit, v, 0, 0); return false })
		vsched.Log(evIterRet, 0, 0, 0)
	case "iterstop":
		vsched.Log(evIterCall, o.N, 0, 0)
		n := int64(0)
		c.Iter(func(v int64) bool { vsched.Log(evIterVisit, v, 0, 0); n++; return n >= o.N })
		vsched.Log(evIterRet, 0, 0, 0)
	case "maxcost":
		vsched.Log(evMaxCost, c.MaxCost(), 0, 0)
	case "remaining":
		vsched.Log(evRemaining, c.Remaining(), 0, 0)
	case "updmax":
		c.UpdateMaxCost(o.N)
		vsched.Log(evUpdMax, o.N, 0, 0)
	case "metrics":
		if m := c.Metrics(); m != nil {
			vsched.Log(evMetrics, int64(m.Hits()), int64(m.Misses()), int64(m.KeysAdded()))
			_ = m.String()
			_ = m.LifeExpectancySeconds() // the histogram of evicted items' life times (guarded by Metrics.mu)
		} else {
			vsched.Log(evMetrics, -1, -1, -1)
		}
	case "advance":
		vtime.Advance(time.Duration(o.N) * time.Millisecond)
		vsched.Log(evAdvance, o.N, 0, 0)
	case "tick":
		for _, t := range vtime.Tickers() {
			t.Fire()
		}
		vsched.Log(evTick, 0, 0, 0)
	case "yield":
		vsched.Yield()
	case "mark":
		vsched.Log(evMark, o.N, 0, 0)
	default:
		panic("unknown op " + o.K)
	}
}

// Exec is the per-execution context handed to a property's hooks.
type Exec struct {
	S *Scenario
	C cacheAPI
	// white-box dumps taken by the main thread
	AfterSetup *Dump
	AfterJoin  *Dump
	AfterEpi   *Dump
	Threads    []vsched.ThreadInfo // at the end of the epilogue
	Extra      func(x *Exec)       // optional property-specific probe run (frozen) after the epilogue
}

// body returns the function run as thread 0 for scenario s; it fills *out.
func (s *Scenario) body(out *Exec) func() {
	return func() {
		vtime.ResetClock()
		vsched.Freeze()
		vsched.SetPoolPoints(s.Cfg.PoolPoints)
		vsched.SetLogLocks(s.Cfg.LogLocks)
		switch s.Cfg.MapOrder {
		case "rot":
			vsched.SetMapOrder(func(n int) int { return n })
		case "perm":
			vsched.SetMapOrder(func(n int) int {
				if n > 4 {
					return n
				}
				f := 1
				for i := 2; i <= n; i++ {
					f *= i
				}
				return n + f
			})
		}
		c := newCache(s.Cfg, s)
		if raceMode {
			// under the race build nothing is shared between executions or read white-box
			out = &Exec{Extra: out.Extra}
		}
		*out = Exec{S: s, C: c, Extra: out.Extra}
		for _, o := range s.Setup {
			runOp(c, o)
		}
		if !raceMode {
			out.AfterSetup = c.Dump()
		}
		vsched.Log(evMark, 1, 0, 0) // end of set-up
		vsched.Unfreeze()
		ids := make([]int, 0, len(s.Threads))
		for ti, prog := range s.Threads {
			prog := prog
			ids = append(ids, vsched.Spawn(fmt.Sprintf("client%d", ti), func() {
				for _, o := range prog {
					runOp(c, o)
					if s.Yield {
						vsched.Yield()
					}
				}
			}))
		}
		vsched.Join(ids...)
		vsched.Freeze()
		vsched.Log(evMark, 2, 0, 0) // all clients done
		if !raceMode {
			out.AfterJoin = c.Dump()
		}
		for _, o := range s.Epilogue {
			runOp(c, o)
		}
		if !raceMode {
			out.AfterEpi = c.Dump()
		}
		if out.Extra != nil {
			out.Extra(out)
		}
		out.Threads = vsched.Threads()
		vsched.Log(evMark, 3, 0, 0)
	}
}
