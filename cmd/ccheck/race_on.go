//go:build race

package main

const raceMode = true
