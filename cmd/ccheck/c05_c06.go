package main

import (
	"fmt"
	"sort"
	"strings"

	"verif/shim/vsched"
)

// C05 — a completed Del wins over every earlier Set once writes have drained.
// C06 — with room to spare the cache is a faithful map; Wait makes writes visible.
// Both: sequential driver, every applier lag, explicit-state search over single-client histories.

func init() {
	registerProp(&Prop{ID: "C05", Level: "model_checking",
		Rule: "explicit-state BFS over single-client histories {Set(k), SetWithTTL(k), Del(k), Wait, Get(k), Set(j)} x every applier / policy-goroutine step between any two calls (events), " +
			"for write-buffer sizes 1, 2, 8, on the real cache driven sequentially; state key = full white-box state with value ids renamed + oracle bookkeeping; " +
			"oracle on every transition: once Del(k) returned and a later Wait returned and no Set(k) was issued since, Get(k) misses and the map does not hold k, in that state and every later one; " +
			"every value of k accepted before the Del has had OnExit by that Wait's return; plus the preemptive DFS (second thread working on a neighbour key)",
		Assume: []string{"single client thread in the history search (concurrent activity on other keys is covered by the DFS scenarios)", "state de-duplication key contains every field the implementation can branch on; value ids are renamed by first appearance"},
		Seq:    c05Seq,
		Jobs:   c05Jobs,
		Oracle: func(x *Exec, res *vsched.Result, job *Job) []Viol { return delWinsLog(res.Events, nil, "C05") },
		Outcome: getOutcome,
	})
	registerProp(&Prop{ID: "C06", Level: "model_checking",
		Rule: "explicit-state BFS over single-client histories {Set, SetWithTTL(0|3s), Del, Get, GetTTL, Wait, advance 1s} on keys whose total cost fits x every applier lag, on the real cache driven sequentially; " +
			"oracle on every transition: (1) at every Wait return nothing enqueued before it is still buffered; (2) a Set that returned true for a key neither resident nor pending, that fits, is returned by Get after the next Wait and stays until overwritten / deleted / expired; " +
			"(3) an overwrite of a resident key is what the very next Get returns; the reference (map + FIFO) is used only to compute the antecedents",
		Assume: []string{"single client thread (the property's quantifier)", "white-box reads decide the antecedents 'resident' and 'pending'"},
		Seq:    c06Seq,
	})
}

type keyPhase struct {
	phase int // 0 none, 1 Del returned, 2 Del returned and a later Wait returned
	owed  map[int64]bool
}

// delWinsLog evaluates the C05 oracle on an event log. post (optional) is the white-box state at
// the end of the log; logical key k is looked up through hashOf.
func delWinsLog(evs []vsched.Event, post func(key int64) (present bool, known bool), id string) []Viol {
	type vst struct {
		key      int64
		accepted bool
		exited   bool
	}
	vals := map[int64]*vst{}
	phases := map[int64]*keyPhase{}
	get := func(k int64) *keyPhase {
		if phases[k] == nil {
			phases[k] = &keyPhase{owed: map[int64]bool{}}
		}
		return phases[k]
	}
	var out []Viol
	waiting := map[int8][]int64{} // thread -> keys whose Del had returned when the thread's Wait began
	for _, e := range evs {
		switch e.Kind {
		case evSetCall:
			vals[e.B] = &vst{key: e.A}
			get(e.A).phase = 0 // a later Set of k ends the guarantee
		case evSetRet:
			if v := vals[e.B]; v != nil {
				v.accepted = e.C == 1
			}
		case evOnExit:
			if v := vals[e.A]; v != nil {
				v.exited = true
				delete(get(v.key).owed, e.A)
			}
		case evDelCall:
			kp := get(e.A)
			for id, v := range vals {
				if v.key == e.A && v.accepted && !v.exited {
					kp.owed[id] = true
				}
			}
		case evDelRet:
			get(e.A).phase = 1
		case evWaitCall:
			// this thread's Wait began after the Dels that have returned so far
			var ks []int64
			for k, kp := range phases {
				if kp.phase == 1 {
					ks = append(ks, k)
				}
			}
			waiting[e.Tid] = ks
		case evWaitRet:
			for _, k := range waiting[e.Tid] {
				kp := phases[k]
				if kp == nil || kp.phase != 1 {
					continue // a Set of k was issued meanwhile
				}
				kp.phase = 2
				if len(kp.owed) > 0 {
					var o []int64
					for v := range kp.owed {
						o = append(o, v)
					}
					sort.Slice(o, func(i, j int) bool { return o[i] < o[j] })
					out = append(out, Viol{Key: id + "/deleted-value-not-released-by-wait", What: fmt.Sprintf("Del(%d) returned and a Wait that began afterwards returned, but value(s) %v accepted before the Del have not been passed to OnExit", k, o)})
				}
			}
			delete(waiting, e.Tid)
		case evGetRet:
			if kp := phases[e.A]; kp != nil && kp.phase == 2 && e.C == 1 {
				out = append(out, Viol{Key: id + "/get-hits-after-del-and-wait", What: fmt.Sprintf("Get(%d) returned value %d although Del(%d) had returned, a later Wait had returned and no Set of that key was issued since", e.A, e.B, e.A)})
			}
		case evClearRet:
			for _, kp := range phases {
				kp.owed = map[int64]bool{}
			}
		}
	}
	if post != nil {
		for k, kp := range phases {
			if kp.phase == 2 {
				if present, known := post(k); known && present {
					out = append(out, Viol{Key: id + "/map-holds-key-after-del-and-wait", What: fmt.Sprintf("the map still holds key %d although Del(%d) had returned, a later Wait had returned and no Set of that key was issued since", k, k)})
				}
			}
		}
	}
	return out
}

func delAbstract(evs []vsched.Event, ren func(int64) int64) string {
	// recompute the phases (cheap) and print them canonically
	type vst struct {
		key              int64
		accepted, exited bool
	}
	vals := map[int64]*vst{}
	phase := map[int64]int{}
	waitingA := map[int8][]int64{}
	owed := map[int64]map[int64]bool{}
	for _, e := range evs {
		switch e.Kind {
		case evSetCall:
			vals[e.B] = &vst{key: e.A}
			phase[e.A] = 0
		case evSetRet:
			if v := vals[e.B]; v != nil {
				v.accepted = e.C == 1
			}
		case evOnExit:
			if v := vals[e.A]; v != nil {
				v.exited = true
				delete(owed[v.key], e.A)
			}
		case evDelCall:
			if owed[e.A] == nil {
				owed[e.A] = map[int64]bool{}
			}
			for id, v := range vals {
				if v.key == e.A && v.accepted && !v.exited {
					owed[e.A][id] = true
				}
			}
		case evDelRet:
			phase[e.A] = 1
		case evWaitCall:
			var ks []int64
			for k, p := range phase {
				if p == 1 {
					ks = append(ks, k)
				}
			}
			waitingA[e.Tid] = ks
		case evWaitRet:
			for _, k := range waitingA[e.Tid] {
				if phase[k] == 1 {
					phase[k] = 2
				}
			}
			delete(waitingA, e.Tid)
		}
	}
	// a Wait in flight is part of the bookkeeping
	for _, ks := range waitingA {
		for _, k := range ks {
			if phase[k] == 1 {
				phase[k] = 11
			}
		}
	}
	var keys []int64
	for k := range phase {
		keys = append(keys, k)
	}
	sort.Slice(keys, func(i, j int) bool { return keys[i] < keys[j] })
	var b strings.Builder
	for _, k := range keys {
		var o []int64
		for v := range owed[k] {
			o = append(o, ren(v))
		}
		sort.Slice(o, func(i, j int) bool { return o[i] < o[j] })
		fmt.Fprintf(&b, "%d:%d%v;", k, phase[k], o)
	}
	// values accepted and not yet exited matter for future "owed" sets
	var live []string
	for id, v := range vals {
		if v.accepted && !v.exited {
			live = append(live, fmt.Sprintf("%d@%d", ren(id), v.key))
		}
	}
	sort.Strings(live)
	b.WriteString(strings.Join(live, ","))
	return b.String()
}

func storeHas(r *SeqRun, key int64) (bool, bool) {
	h, _ := r.C.Hash(int(key))
	for _, e := range r.Post.Store {
		if e.Key == h {
			return true, true
		}
	}
	return false, true
}

func c05Seq(tier string) []SeqJob {
	depth := map[int]int{1: 8, 2: 8, 8: 7}
	secs := 40.0
	if tier == "thorough" {
		depth = map[int]int{1: 11, 2: 11, 8: 10}
		secs = 540
	}
	alpha := []Op{{K: "set", Key: 1, Cost: 1}, {K: "del", Key: 1}, {K: "wait"}, {K: "get", Key: 1}, {K: "setttl", Key: 1, Cost: 1, TTL: 3000}, {K: "set", Key: 257, Cost: 1}}
	var out []SeqJob
	for _, sb := range []int{1, 2, 8} {
		spec := &SeqSpec{
			Cfg:      Cfg{NumCounters: 16, MaxCost: 4, BufferItems: 2, SetBuf: sb},
			MaxDepth: depth[sb],
			Alphabet: func(r *SeqRun) []Op { return alpha },
			Oracle: func(r *SeqRun) []Viol {
				return delWinsLog(r.Events, func(k int64) (bool, bool) { return storeHas(r, k) }, "C05")
			},
			Abstract: func(r *SeqRun, ren func(int64) int64) string { return delAbstract(r.Events, ren) },
		}
		out = append(out, SeqJob{Name: fmt.Sprintf("seq/setbuf%d/depth%d", sb, depth[sb]), Spec: spec, Seconds: secs})
	}
	// lean alphabet with the compound drain event: long alternations Del / Set / Del on one key
	// (repeated tombstones of the same key with a Set in between) within the depth bound
	{
		lean := []Op{{K: "set", Key: 1, Cost: 1}, {K: "del", Key: 1}, {K: "drain"}, {K: "wait"}, {K: "get", Key: 1}}
		d := 9
		if tier == "thorough" {
			d = 12
		}
		spec := &SeqSpec{
			Cfg:      Cfg{NumCounters: 16, MaxCost: 4, BufferItems: 2, SetBuf: 4},
			MaxDepth: d,
			Alphabet: func(r *SeqRun) []Op { return lean },
			Oracle: func(r *SeqRun) []Viol {
				return delWinsLog(r.Events, func(k int64) (bool, bool) { return storeHas(r, k) }, "C05")
			},
			Abstract: func(r *SeqRun, ren func(int64) int64) string { return delAbstract(r.Events, ren) },
		}
		out = append(out, SeqJob{Name: fmt.Sprintf("seq/lean/setbuf4/depth%d", d), Spec: spec, Seconds: secs})
	}
	return out
}

// preemptive part: the deleting client plus a second thread on a neighbour key in the same shard
func c05Jobs(tier string) []Job {
	bound := 3
	if tier == "thorough" {
		bound = 4
	}
	var jobs []Job
	set := func(k int) Op { return Op{K: "set", Key: k, Cost: 1} }
	for _, sb := range []int{1, 2} {
		cfg := Cfg{NumCounters: 16, MaxCost: 3, BufferItems: 2, SetBuf: sb}
		for i, other := range [][]Op{{set(257), {K: "get", Key: 257}}, {{K: "del", Key: 257}, set(257)}, {{K: "get", Key: 1}, {K: "get", Key: 1}}, {{K: "wait"}, set(257)}} {
			for si, setup := range [][]Op{{set(1), {K: "wait"}}, {set(1), {K: "wait"}, set(1)}, {set(1)}} {
				if tier != "thorough" && sb == 2 && si != 1 {
					continue
				}
				sc := &Scenario{Name: fmt.Sprintf("dfs/setbuf%d/setup%d/other%d", sb, si, i), Cfg: cfg, Setup: cp(setup),
					Threads:  [][]Op{{{K: "del", Key: 1}, {K: "wait"}, {K: "get", Key: 1}}, cp(other)},
					Epilogue: []Op{{K: "wait"}, {K: "get", Key: 1}}}
				jobs = append(jobs, Job{Scenario: sc, Bound: bound})
			}
		}
	}
	return jobs
}

// ----- C06 -----------------------------------------------------------------------------------------------

// c06Model is the reference of the property's quantifier: "a reference map with an explicit FIFO
// of pending writes". The reference FIFO holds what the CLIENT CALLS put into the write buffer
// (the sequential driver logs every item a client step appended: a Set appends its own item, a
// Del its tombstone, a Wait its marker); the implementation's buffer is mirrored item by item,
// and an item that no call accounts for (a read that queues a delete, say) is marked foreign: the
// implementation applies it, the reference does not - if that matters, the maps diverge.
type c06Entry struct {
	val, exp, ttl int64 // exp in ns since the virtual epoch, 0: none
}

type c06Model struct {
	M     map[int64]c06Entry // key -> entry the map must hold
	P     map[int64]bool     // keys the capacity accounting must charge
	Cost  map[int64]int64    // and what it must charge for them
	// Outside is set when a new item did not fit in the remaining capacity: the admission is
	// then the eviction policy's business (C09), outside this property's antecedent
	Outside bool
	// Foreign counts write-buffer items that no client call accounts for
	Foreign int
	// Mirror: for every item still in the implementation's buffer, whether the reference FIFO holds it
	Mirror []bool
	byVal  map[int64]c06Entry // every value ever passed to Set, with the expiration fixed at call time
	keyOf map[int64]int64
}

func c06Replay(evs []vsched.Event) (*c06Model, []Viol) {
	m := &c06Model{M: map[int64]c06Entry{}, P: map[int64]bool{}, Cost: map[int64]int64{}, byVal: map[int64]c06Entry{}, keyOf: map[int64]int64{}}
	maxCost := int64(1 << 60)
	for _, e := range evs {
		if e.Kind == evPre {
			// room + used at the first logged call = MaxCost (nothing is accounted yet)
			maxCost = e.C
			break
		}
	}
	var lastApplied *vsched.Event
	var out []Viol
	// mirror of the implementation's write buffer: true = the item belongs to the reference FIFO
	var mirror []bool
	var curCall vsched.Event // the client call in progress (Kind 0: none)
	visible := func(k, now int64) (c06Entry, bool) {
		e, ok := m.M[k]
		if !ok || (e.exp != 0 && now > e.exp) {
			return e, false
		}
		return e, true
	}
	for _, e := range evs {
		switch e.Kind {
		case evGetCall, evGetTTLCall, evWaitCall, evIterCall:
			curCall = e
		case evEnq:
			mine := false
			switch curCall.Kind {
			case evSetCall:
				mine = (e.C == 0 || e.C == 2) && e.B == curCall.B
			case evDelCall:
				mine = e.C == 1 && e.A == curCall.A
			case evWaitCall:
				mine = e.C == 3
			}
			mirror = append(mirror, mine)
			if !mine {
				m.Foreign++
			}
		case evSetCall:
			curCall = e
			if e.C < 0 {
				continue // negative ttl: a no-op
			}
			ent := c06Entry{val: e.B}
			if e.C > 0 {
				ent.exp, ent.ttl = e.T+e.C*1e6, e.C*1e6
			}
			m.byVal[e.B], m.keyOf[e.B] = ent, e.A
			if _, ok := m.M[e.A]; ok {
				m.M[e.A] = ent // an overwrite of a resident key takes effect immediately
			}
		case evDelCall:
			curCall = e
			delete(m.M, e.A) // deleted immediately; the tombstone travels through the FIFO
		case evOnEvict:
			// expiry processing removed an entry whose TTL had elapsed (WHEN a sweep gets to an
			// expired entry is C14's business: the reference follows the implementation here; an
			// eviction of anything else leaves the reference alone, and the maps diverge)
			if ent, ok := m.M[e.A]; ok && e.B != 0 && ent.val == e.B && ent.exp != 0 && e.T > ent.exp {
				delete(m.M, e.A)
				delete(m.P, e.A)
				delete(m.Cost, e.A)
			}
		case evClearRet:
			mirror = nil // Clear drains the buffer
			m.M, m.P = map[int64]c06Entry{}, map[int64]bool{}
		case evApplied:
			mine := true
			if len(mirror) > 0 {
				mine, mirror = mirror[0], mirror[1:]
			}
			if !mine {
				lastApplied = nil // a foreign item: the reference FIFO never held it
				continue
			}
			ev := e
			lastApplied = &ev
			if e.C == 1 { // tombstone
				delete(m.P, e.A)
				delete(m.Cost, e.A)
				delete(m.M, e.A)
			}
		case evItemCost:
			if lastApplied == nil || lastApplied.A != e.A {
				continue
			}
			k, cost := e.A, e.B // int keys hash to themselves
			switch lastApplied.C {
			case 0: // new item
				if m.P[k] {
					m.Cost[k] = cost // already accounted: the item is turned away, its cost is adopted
				} else {
					var sum int64
					for _, c := range m.Cost {
						sum += c
					}
					if cost > maxCost || sum+cost > maxCost {
						m.Outside = true
						return m, out
					}
					m.P[k] = true
					m.Cost[k] = cost
					m.M[k] = m.byVal[lastApplied.B]
				}
			case 2: // overwrite of a resident key: only the cost changes
				if m.P[k] {
					m.Cost[k] = cost
				}
			}
			lastApplied = nil
		case evGetRet:
			ent, vis := visible(e.A, e.T)
			switch {
			case vis && e.C != 1:
				out = append(out, Viol{Key: "C06/get-misses-visible-write", What: fmt.Sprintf("Get(%d) missed but the reference map holds value %d", e.A, ent.val)})
			case vis && e.B != ent.val:
				out = append(out, Viol{Key: "C06/get-returns-other-value", What: fmt.Sprintf("Get(%d) returned value %d but the reference map holds value %d", e.A, e.B, ent.val)})
			case !vis && e.C == 1:
				out = append(out, Viol{Key: "C06/get-hits-absent-key", What: fmt.Sprintf("Get(%d) returned value %d but the reference map does not hold the key (or its TTL elapsed)", e.A, e.B)})
			}
		case evGetTTLRet:
			ent, vis := visible(e.A, e.T)
			switch {
			case vis && e.C != 1:
				out = append(out, Viol{Key: "C06/getttl-misses-visible-write", What: fmt.Sprintf("GetTTL(%d) reported not found but the reference map holds value %d", e.A, ent.val)})
			case !vis && e.C == 1:
				out = append(out, Viol{Key: "C06/getttl-finds-absent-key", What: fmt.Sprintf("GetTTL(%d) reported found but the reference map does not hold the key", e.A)})
			case vis && ent.exp == 0 && e.B != 0:
				out = append(out, Viol{Key: "C06/getttl-reports-expiry-for-no-ttl", What: fmt.Sprintf("GetTTL(%d) = %dns for an entry written without TTL", e.A, e.B)})
			case vis && ent.exp != 0 && (e.B < 0 || e.B > ent.ttl):
				out = append(out, Viol{Key: "C06/getttl-out-of-range", What: fmt.Sprintf("GetTTL(%d) = %dns for an entry written with ttl %dns", e.A, e.B, ent.ttl)})
			}
		}
	}
	m.Mirror = mirror
	return m, out
}

func c06Oracle(r *SeqRun) []Viol {
	m, out := c06Replay(r.Events)
	n := len(r.Hist)
	// (1) Wait returns only after everything buffered before it was applied
	if n > 0 && r.Hist[n-1].K == "op" && r.Hist[n-1].Op.K == "wait" && r.Status[n-1] == "yielded" {
		if len(r.Post.SetBufItems) != 0 {
			out = append(out, Viol{Key: "C06/wait-returned-with-writes-still-buffered", What: fmt.Sprintf("Wait returned while %d earlier item(s) are still in the write buffer", len(r.Post.SetBufItems))})
		}
	}
	// (2) an accepted write really is in the FIFO: after a Set that returned true the buffer's
	// tail is that write (new item for a non-resident key, update marker for a resident one)
	if n > 0 && r.Hist[n-1].K == "op" && (r.Hist[n-1].Op.K == "set" || r.Hist[n-1].Op.K == "setttl") && r.Status[n-1] == "yielded" {
		var ret *vsched.Event
		for i := len(r.Events) - 1; i >= 0; i-- {
			if r.Events[i].Kind == evSetRet {
				ret = &r.Events[i]
				break
			}
		}
		if ret != nil && ret.C == 1 && len(r.Post.SetBufItems) > len(r.Pre.SetBufItems) {
			tail := r.Post.SetBufItems[len(r.Post.SetBufItems)-1]
			if v, _ := tail.Value.(int64); v != ret.B {
				out = append(out, Viol{Key: "C06/accepted-write-not-at-fifo-tail", What: fmt.Sprintf("Set of value %d returned true but the write buffer's tail holds value %d", ret.B, v)})
			}
		}
		if ret != nil && ret.C == 1 && len(r.Post.SetBufItems) == len(r.Pre.SetBufItems) {
			// returned true without enqueuing: only legal for an overwrite of a resident key (buffer full)
			resident := false
			for _, e := range r.Pre.Store {
				if int64(e.Key) == ret.A {
					resident = true
				}
			}
			if !resident {
				out = append(out, Viol{Key: "C06/set-true-but-not-buffered", What: fmt.Sprintf("Set of value %d for a non-resident key returned true but nothing was added to the write buffer", ret.B)})
			}
		}
	}
	// (2b) a completed Del has put its tombstone at the FIFO's tail (it is what orders the delete
	// behind earlier buffered writes and releases the key's accounting)
	if n > 0 && (r.Hist[n-1].K == "op" || r.Hist[n-1].K == "resume") && r.Status[n-1] == "yielded" {
		var last *vsched.Event
		for i := len(r.Events) - 1; i >= 0 && i >= r.EvStart[n-1]; i-- {
			if k := r.Events[i].Kind; k == evDelRet || k == evSetRet || k == evGetRet || k == evWaitRet || k == evGetTTLRet {
				last = &r.Events[i]
				break
			}
		}
		if last != nil && last.Kind == evDelRet {
			okTail := false
			if m := len(r.Post.SetBufItems); m > 0 {
				t := r.Post.SetBufItems[m-1]
				okTail = t.Flag == 1 && int64(t.Key) == last.A
			}
			if !okTail {
				out = append(out, Viol{Key: "C06/del-returned-without-buffering-its-tombstone", What: fmt.Sprintf("Del(%d) returned but the write buffer's tail is not its delete marker", last.A)})
			}
		}
	}
	// the map and the accounting equal the reference in the state reached
	out = append(out, c06CompareMap(r, m, "C06")...)
	acc := map[int64]bool{}
	for _, c := range r.Post.Costs {
		acc[int64(c.Key)] = true
	}
	for k := range m.P {
		if !acc[k] {
			out = append(out, Viol{Key: "C06/accounting-lost-key", What: fmt.Sprintf("key %d is not accounted but the reference says an applied new item admitted it", k)})
		}
	}
	for k := range acc {
		if !m.P[k] {
			out = append(out, Viol{Key: "C06/accounting-extra-key", What: fmt.Sprintf("key %d is accounted but the reference does not account it", k)})
		}
	}
	var sum int64
	for _, c := range r.Post.Costs {
		if want, ok := m.Cost[int64(c.Key)]; ok && want != c.Cost {
			out = append(out, Viol{Key: "C06/accounting-charges-other-cost", What: fmt.Sprintf("key %d is charged %d but the reference charges %d", c.Key, c.Cost, want)})
		}
		sum += c.Cost
	}
	if sum != r.Post.Used {
		out = append(out, Viol{Key: "C06/remaining-capacity-drifted", What: fmt.Sprintf("the accounting's running total is %d but the per-key costs sum to %d: later items that fit would be treated as not fitting", r.Post.Used, sum)})
	}
	return out
}

// c06CompareMap: the stored entries (value and expiration) equal the reference map.
func c06CompareMap(r *SeqRun, m *c06Model, id string) []Viol {
	var out []Viol
	got := map[int64]c06Entry{}
	for _, e := range r.Post.Store {
		x := c06Entry{val: e.Value}
		if !e.Expiration.IsZero() {
			x.exp = e.Expiration.Sub(vtimeBase()).Nanoseconds()
		}
		got[int64(e.Key)] = x
	}
	for k, want := range m.M {
		g, ok := got[k]
		switch {
		case !ok:
			out = append(out, Viol{Key: id + "/map-lost-entry", What: fmt.Sprintf("the map does not hold key %d but the reference map holds value %d", k, want.val)})
		case g.val != want.val || g.exp != want.exp:
			out = append(out, Viol{Key: id + "/map-holds-other-entry", What: fmt.Sprintf("the map holds (value %d, exp %d) for key %d but the reference map holds (value %d, exp %d)", g.val, g.exp, k, want.val, want.exp)})
		}
	}
	for k, g := range got {
		if _, ok := m.M[k]; !ok {
			out = append(out, Viol{Key: id + "/map-holds-extra-entry", What: fmt.Sprintf("the map holds key %d (value %d) but the reference map does not", k, g.val)})
		}
	}
	return out
}

func c06Outside(r *SeqRun) bool {
	m, _ := c06Replay(r.Events)
	return m.Outside
}

// The reference map and accounting are a function of the implementation state that is already in
// the key whenever no violation has occurred; which buffered items are foreign to the reference
// FIFO is not, and is part of the key.
func c06Abstract(r *SeqRun, ren func(int64) int64) string {
	m, _ := c06Replay(r.Events)
	if m.Foreign == 0 {
		return ""
	}
	return fmt.Sprint(m.Mirror)
}

func c06Seq(tier string) []SeqJob {
	var out []SeqJob
	mk := func(name string, keys []int, sb, depth int, secs float64) {
		var alpha []Op
		for _, k := range keys {
			alpha = append(alpha, Op{K: "set", Key: k, Cost: 1}, Op{K: "get", Key: k}, Op{K: "del", Key: k})
		}
		alpha = append(alpha, Op{K: "wait"})
		for _, k := range keys {
			alpha = append(alpha, Op{K: "setttl", Key: k, Cost: 1, TTL: 3000}, Op{K: "getttl", Key: k})
		}
		alpha = append(alpha, Op{K: "advance", N: 1000})
		spec := &SeqSpec{
			Cfg:      Cfg{NumCounters: 16, MaxCost: int64(len(keys)) + 1, BufferItems: 2, SetBuf: sb},
			MaxDepth: depth,
			Alphabet: func(r *SeqRun) []Op { return alpha },
			Oracle:   c06Oracle,
			Abstract: c06Abstract,
			Outside:  c06Outside,
		}
		out = append(out, SeqJob{Name: name, Spec: spec, Seconds: secs})
	}
	// costs 1 and 2 with a capacity that not every combination fits: histories in which a new
	// item does not fit leave the antecedent and are not followed
	mkCosts := func(name string, depth int, secs float64) {
		var alpha []Op
		for _, k := range []int{1, 2} {
			alpha = append(alpha, Op{K: "set", Key: k, Cost: 1}, Op{K: "set", Key: k, Cost: 2}, Op{K: "get", Key: k})
		}
		alpha = append(alpha, Op{K: "del", Key: 1}, Op{K: "drain"})
		spec := &SeqSpec{Cfg: Cfg{NumCounters: 16, MaxCost: 3, BufferItems: 2, SetBuf: 3}, MaxDepth: depth,
			Alphabet: func(r *SeqRun) []Op { return alpha }, Oracle: c06Oracle, Abstract: c06Abstract, Outside: c06Outside}
		out = append(out, SeqJob{Name: name, Spec: spec, Seconds: secs})
	}
	if tier == "quick" {
		mkCosts("seq/2keys/costs1,2/max3/depth6", 6, 40)
		mk("seq/1key/setbuf2/depth8", []int{1}, 2, 8, 40)
		mk("seq/2keys/setbuf2/depth6", []int{1, 257}, 2, 6, 40)
		mk("seq/2keys/setbuf8/depth5", []int{1, 257}, 8, 5, 40)
		mk("seq/3keys/setbuf3/depth4", []int{1, 257, 2}, 3, 4, 40)
	} else {
		mk("seq/1key/setbuf2/depth11", []int{1}, 2, 11, 560)
		mk("seq/1key/setbuf8/depth11", []int{1}, 8, 11, 560)
		mk("seq/2keys/setbuf2/depth8", []int{1, 257}, 2, 8, 560)
		mk("seq/2keys/setbuf8/depth8", []int{1, 257}, 8, 8, 560)
		mk("seq/3keys/setbuf3/depth7", []int{1, 257, 2}, 3, 7, 560)
		mk("seq/3keys/setbuf8/depth7", []int{1, 257, 2}, 8, 7, 560)
		mkCosts("seq/2keys/costs1,2/max3/depth9", 9, 560)
	}
	return out
}
