package main

import (
	"fmt"

	"verif/shim/vsched"
)

// C07 — items are never served after their TTL has elapsed (and the TTL alone never hides them).
// C14 — expiry processing reclaims exactly the expired items, each once.

type ttlInfo struct {
	key      int64
	ttl      int64 // ns; 0 none; <0 negative
	exp      int64 // ns since epoch; 0 none
	accepted bool
	callIdx  int
}

func ttlTable(evs []vsched.Event) map[int64]*ttlInfo {
	t := map[int64]*ttlInfo{}
	for i, e := range evs {
		switch e.Kind {
		case evSetCall:
			ti := &ttlInfo{key: e.A, ttl: e.C * 1e6, callIdx: i}
			if e.C > 0 {
				ti.exp = e.T + e.C*1e6
			}
			t[e.B] = ti
		case evSetRet:
			if ti := t[e.B]; ti != nil {
				ti.accepted = e.C == 1
			}
		}
	}
	return t
}

// servedAfterTTL: no Get / GetTTL / IterValues that starts after exp(v) yields v; negative ttl returns false.
func servedAfterTTL(evs []vsched.Event, id string) []Viol {
	tt := ttlTable(evs)
	var out []Viol
	callT := map[int8]int64{}
	for _, e := range evs {
		switch e.Kind {
		case evGetCall, evIterCall, evGetTTLCall:
			callT[e.Tid] = e.T
		case evGetRet:
			if e.C == 1 {
				if ti := tt[e.B]; ti != nil && ti.exp != 0 && callT[e.Tid] > ti.exp {
					out = append(out, Viol{Key: id + "/get-serves-expired-item", What: fmt.Sprintf("Get(%d) started at t=%dms and returned value %d whose TTL elapsed at t=%dms", e.A, callT[e.Tid]/1e6, e.B, ti.exp/1e6)})
				}
			}
		case evIterVisit:
			if ti := tt[e.A]; ti != nil && ti.exp != 0 && callT[e.Tid] > ti.exp {
				out = append(out, Viol{Key: id + "/itervalues-serves-expired-item", What: fmt.Sprintf("IterValues started at t=%dms and visited value %d whose TTL elapsed at t=%dms", callT[e.Tid]/1e6, e.A, ti.exp/1e6)})
			}
		case evSetRet:
			if ti := tt[e.B]; ti != nil && ti.ttl < 0 && e.C == 1 {
				out = append(out, Viol{Key: id + "/negative-ttl-accepted", What: fmt.Sprintf("SetWithTTL with a negative ttl returned true (value %d)", e.B)})
			}
		}
	}
	return out
}

func c07Oracle(r *SeqRun) []Viol {
	out := servedAfterTTL(r.Events, "C07")
	tt := ttlTable(r.Events)
	now := r.Post.ClockNs
	// every stored entry carries the expiration fixed at the time of the call that wrote it
	for _, e := range r.Post.Store {
		ti := tt[e.Value]
		if ti == nil {
			continue
		}
		var exp int64
		if !e.Expiration.IsZero() {
			exp = e.Expiration.Sub(vtimeBase()).Nanoseconds()
		}
		if exp != ti.exp {
			out = append(out, Viol{Key: "C07/stored-expiration-differs-from-call-time-plus-ttl", What: fmt.Sprintf("value %d is stored with expiration t=%dms but its SetWithTTL call was at t=%dms with ttl %dms", e.Value, exp/1e6, (ti.exp-ti.ttl)/1e6, ti.ttl/1e6)})
		}
	}
	n := len(r.Hist)
	if n == 0 || r.Hist[n-1].K != "op" || r.Status[n-1] != "yielded" {
		return out
	}
	op := r.Hist[n-1].Op
	// the entry the map held for the key just before the call
	var pre *struct{ v, exp int64 }
	h, _ := r.C.Hash(op.Key)
	for _, e := range r.Pre.Store {
		if e.Key == h {
			x := struct{ v, exp int64 }{e.Value, 0}
			if !e.Expiration.IsZero() {
				x.exp = e.Expiration.Sub(vtimeBase()).Nanoseconds()
			}
			pre = &x
		}
	}
	last := func(kind uint8) *vsched.Event {
		for i := len(r.Events) - 1; i >= 0; i-- {
			if r.Events[i].Kind == kind {
				return &r.Events[i]
			}
		}
		return nil
	}
	switch op.K {
	case "get":
		if e := last(evGetRet); e != nil && e.C == 0 && pre != nil && (pre.exp == 0 || now <= pre.exp) {
			out = append(out, Viol{Key: "C07/ttl-hides-unexpired-item", What: fmt.Sprintf("Get(%d) missed at t=%dms although the map holds value %d with expiration t=%dms (0 = none)", op.Key, now/1e6, pre.v, pre.exp/1e6)})
		}
	case "getttl":
		e := last(evGetTTLRet)
		if e == nil || pre == nil {
			if e != nil && e.C == 1 {
				out = append(out, Viol{Key: "C07/getttl-finds-absent-key", What: fmt.Sprintf("GetTTL(%d) reported found but the map does not hold the key", op.Key)})
			}
			break
		}
		ti := tt[pre.v]
		switch {
		case pre.exp == 0 && !(e.C == 1 && e.B == 0):
			out = append(out, Viol{Key: "C07/getttl-wrong-for-no-ttl", What: fmt.Sprintf("GetTTL(%d) = (%dns, found=%d) for an item written with ttl=0; want (0, true)", op.Key, e.B, e.C)})
		case pre.exp != 0 && now > pre.exp && e.C == 1:
			out = append(out, Viol{Key: "C07/getttl-serves-expired-item", What: fmt.Sprintf("GetTTL(%d) reported found at t=%dms for an item whose TTL elapsed at t=%dms", op.Key, now/1e6, pre.exp/1e6)})
		case pre.exp != 0 && now <= pre.exp && e.C != 1:
			out = append(out, Viol{Key: "C07/ttl-hides-unexpired-item", What: fmt.Sprintf("GetTTL(%d) reported not found at t=%dms although the item expires at t=%dms", op.Key, now/1e6, pre.exp/1e6)})
		case pre.exp != 0 && now <= pre.exp && ti != nil && (e.B < 0 || e.B > ti.ttl):
			out = append(out, Viol{Key: "C07/getttl-exceeds-ttl", What: fmt.Sprintf("GetTTL(%d) = %dns, more than the ttl %dns the item was written with", op.Key, e.B, ti.ttl)})
		}
	case "setttl":
		if op.TTL < 0 {
			if fmt.Sprint(r.Pre.Store, r.Pre.Costs, r.Pre.SetBufItems, r.Pre.Buckets) != fmt.Sprint(r.Post.Store, r.Post.Costs, r.Post.SetBufItems, r.Post.Buckets) {
				out = append(out, Viol{Key: "C07/negative-ttl-changed-state", What: "SetWithTTL with a negative ttl changed the cache state"})
			}
		}
	}
	return out
}

// c07Reference compares the map with the reference map + FIFO of C06; entries the reference
// still holds although their TTL has elapsed may or may not have been swept already.
func c07Reference(r *SeqRun) []Viol {
	m, _ := c06Replay(r.Events)
	if m.Outside {
		return nil
	}
	now := r.Post.ClockNs
	stored := map[int64]bool{}
	for _, e := range r.Post.Store {
		stored[int64(e.Key)] = true
	}
	for k, e := range m.M {
		if e.exp != 0 && now > e.exp && !stored[k] {
			delete(m.M, k) // expired and reclaimed: fine
		}
	}
	var out []Viol
	for _, v := range c06CompareMap(r, m, "C07") {
		if v.Key == "C07/map-lost-entry" {
			v.Key = "C07/item-hidden-before-its-ttl-elapsed"
		}
		out = append(out, v)
	}
	return out
}

func c07Seq(tier string) []SeqJob {
	var out []SeqJob
	mk := func(name string, keys []int, ttls []int64, depth int, secs float64) {
		hash, su := "", ""
		if keys[0] == -2 {
			su = "refuse-even" // Config.ShouldUpdate vetoes writes with an even value id
			keys = keys[1:]
		}
		if keys[0] < 0 {
			// negative marker: keys with NON-ZERO conflict hashes (custom KeyToHash), as string /
			// []byte keys have: lookups then take the conflict-checking path
			hash = "collide"
			keys = keys[1:]
		}
		var alpha []Op
		for _, k := range keys {
			alpha = append(alpha, Op{K: "get", Key: k}, Op{K: "set", Key: k, Cost: 1})
			for _, t := range ttls {
				alpha = append(alpha, Op{K: "setttl", Key: k, Cost: 1, TTL: t})
			}
			alpha = append(alpha, Op{K: "getttl", Key: k}, Op{K: "del", Key: k})
		}
		alpha = append(alpha, Op{K: "iter"}, Op{K: "advance", N: 1000}, Op{K: "advance", N: 5000}, Op{K: "sweep"}, Op{K: "advance", N: 400})
		spec := &SeqSpec{Cfg: Cfg{NumCounters: 16, MaxCost: 4, BufferItems: 2, SetBuf: 2, TTLTick: 2, BucketSecs: 1, KeyHash: hash, ShouldUpdate: su}, MaxDepth: depth,
			Alphabet: func(r *SeqRun) []Op { return alpha }, Oracle: c07Oracle}
		if hash == "" && su == "" {
			// everything fits (<= 2 keys of cost 1, MaxCost 4): the cache must also equal the
			// reference map of C06 extended by "a sweep removes exactly the expired entries" - an
			// entry may leave the map only by a Del, an overwrite or its OWN elapsed TTL
			spec.Oracle = func(r *SeqRun) []Viol { return append(c07Oracle(r), c07Reference(r)...) }
			spec.Abstract = c06Abstract
		}
		out = append(out, SeqJob{Name: name, Spec: spec, Seconds: secs})
	}
	// lean alphabet on one key (TTL / no TTL writes, reads, a clock jump past the TTL, drain) so
	// that longer histories are reached: an expired entry that is read and then overwritten
	// under applier lag, a no-TTL write after the applier finished an earlier TTL overwrite, ...
	lean := func(name string, depth int, secs float64) {
		alpha := []Op{{K: "setttl", Key: 1, Cost: 1, TTL: 1000}, {K: "set", Key: 1, Cost: 1}, {K: "get", Key: 1}, {K: "getttl", Key: 1},
			{K: "advance", N: 5000}, {K: "drain"}, {K: "setttl", Key: 1, Cost: 1, TTL: 7000}}
		spec := &SeqSpec{Cfg: Cfg{NumCounters: 16, MaxCost: 4, BufferItems: 2, SetBuf: 3, TTLTick: 2, BucketSecs: 1}, MaxDepth: depth,
			Alphabet: func(r *SeqRun) []Op { return alpha }, Abstract: c06Abstract,
			Oracle: func(r *SeqRun) []Viol { return append(c07Oracle(r), c07Reference(r)...) }}
		out = append(out, SeqJob{Name: name, Spec: spec, Seconds: secs})
	}
	if tier == "quick" {
		lean("seq/lean/1key/depth7", 7, 40)
	} else {
		lean("seq/lean/1key/depth10", 10, 560)
	}
	if tier == "quick" {
		mk("seq/1key/ttl{-1,1,1.5,3,7}s/depth5", []int{1}, []int64{-1000, 1000, 1500, 3000, 7000}, 5, 40)
		mk("seq/2keys/ttl{1,3}s/depth4", []int{1, 257}, []int64{1000, 3000}, 4, 40)
		mk("seq/nonzero-conflict/1key/ttl{1,1.5}s/depth5", []int{-1, 3}, []int64{1000, 1500}, 5, 40)
		mk("seq/shouldupdate-vetoes/1key/ttl{1,3}s/depth5", []int{-2, 1}, []int64{1000, 3000}, 5, 40)
	} else {
		mk("seq/1key/ttl{-1,1,1.5,3,7}s/depth8", []int{1}, []int64{-1000, 1000, 1500, 3000, 7000}, 8, 560)
		mk("seq/nonzero-conflict/2keys/ttl{1,1.5,3}s/depth7", []int{-1, 1, 3}, []int64{1000, 1500, 3000}, 7, 560)
		mk("seq/shouldupdate-vetoes/1key/ttl{1,3,7}s/depth8", []int{-2, 1}, []int64{1000, 3000, 7000}, 8, 560)
		mk("seq/2keys/ttl{-1,1,3,7}s/depth6", []int{1, 257}, []int64{-1000, 1000, 3000, 7000}, 6, 560)
		mk("seq/2keys/ttl{1,3}s/depth7", []int{1, 257}, []int64{1000, 3000}, 7, 560)
	}
	return out
}

// preemptive part of C07: reader vs overwrite that changes the TTL vs sweep
func c07Jobs(tier string) []Job {
	bound := 3
	if tier == "thorough" {
		bound = 4
	}
	var jobs []Job
	cfg := Cfg{NumCounters: 16, MaxCost: 4, BufferItems: 2, SetBuf: 2, TTLTick: 2, BucketSecs: 1}
	sttl := func(k int, ms int64) Op { return Op{K: "setttl", Key: k, Cost: 1, TTL: ms} }
	setup := []Op{sttl(1, 2000), {K: "wait"}, {K: "advance", N: 1000}}
	writers := [][]Op{{sttl(1, 500), {K: "advance", N: 1000}}, {{K: "set", Key: 1, Cost: 1}, {K: "advance", N: 2000}}, {{K: "advance", N: 2000}, {K: "tick"}}, {{K: "del", Key: 1}, sttl(1, 500)}}
	readers := [][]Op{{{K: "get", Key: 1}, {K: "get", Key: 1}}, {{K: "getttl", Key: 1}, {K: "get", Key: 1}}}
	for i, w := range writers {
		for j, rd := range readers {
			sc := &Scenario{Name: fmt.Sprintf("dfs/w%d-r%d", i, j), Cfg: cfg, Setup: cp(setup), Threads: [][]Op{cp(w), cp(rd)}, Epilogue: []Op{{K: "wait"}, {K: "get", Key: 1}}}
			jobs = append(jobs, Job{Scenario: sc, Bound: bound})
		}
	}
	// the entry is ALREADY expired (and unswept) when a writer refreshes it: a lookup that looks
	// at the entry more than once must not combine the old value with the new expiration
	expired := []Op{sttl(1, 1000), {K: "wait"}, {K: "advance", N: 2000}}
	refreshers := [][]Op{{sttl(1, 5000)}, {{K: "set", Key: 1, Cost: 1}}, {{K: "del", Key: 1}, sttl(1, 5000)}}
	for i, w := range refreshers {
		for j, rd := range readers {
			sc := &Scenario{Name: fmt.Sprintf("dfs/expired-refreshed/w%d-r%d", i, j), Cfg: cfg, Setup: cp(expired), Threads: [][]Op{cp(w), cp(rd)}, Epilogue: []Op{{K: "wait"}, {K: "get", Key: 1}}}
			jobs = append(jobs, Job{Scenario: sc, Bound: bound})
		}
	}
	return jobs
}

// ----- C14 -------------------------------------------------------------------------------------------------

// sweepSafety: every value removed by expiry processing had, in the write that made it current,
// a non-zero expiration that has passed. applierEvict tells whether an OnEvict event was
// issued by expiry processing.
func sweepSafety(evs []vsched.Event, bySweep func(i int) bool, id string) []Viol {
	tt := ttlTable(evs)
	var out []Viol
	evicts, exits := map[int64]int{}, map[int64]int{}
	for i, e := range evs {
		switch e.Kind {
		case evOnExit:
			if e.A != 0 {
				exits[e.A]++
			}
		case evOnEvict:
			if e.B == 0 {
				continue
			}
			evicts[e.B]++
			if !bySweep(i) {
				continue
			}
			ti := tt[e.B]
			switch {
			case ti == nil:
			case ti.exp == 0:
				out = append(out, Viol{Key: id + "/sweep-removed-entry-without-ttl:" + rewriteClass(evs, i, e.B), What: fmt.Sprintf("expiry processing removed value %d of key %d at t=%dms, which was written without TTL", e.B, ti.key, e.T/1e6)})
			case e.T < ti.exp:
				out = append(out, Viol{Key: id + "/sweep-removed-unexpired-entry:" + rewriteClass(evs, i, e.B), What: fmt.Sprintf("expiry processing removed value %d of key %d at t=%dms, but its TTL elapses only at t=%dms", e.B, ti.key, e.T/1e6, ti.exp/1e6)})
			}
		}
	}
	for v, n := range evicts {
		if n > 1 {
			out = append(out, Viol{Key: id + "/evicted-twice", What: fmt.Sprintf("value %d was reported through OnEvict %d times", v, n)})
		}
	}
	for v, n := range exits {
		if n > 1 {
			out = append(out, Viol{Key: id + "/onexit-twice", What: fmt.Sprintf("value %d was passed to OnExit %d times", v, n)})
		}
	}
	return out
}

// rewriteClass classifies a wrongly removed re-written value by where the re-write landed
// relative to the sweep's per-key check, using the lock grants logged by the scheduler: the
// sweep's check is the applier's last read-lock grant before the eviction; the re-write's
// store update is the client's write-lock grant on the same lock right before the OnExit of
// the value it replaced (or its Set call).
func rewriteClass(evs []vsched.Event, evictIdx int, val int64) string {
	applier := evs[evictIdx].Tid
	// the applier's last RLock grant before the eviction
	check := -1
	var lock int64
	for i := evictIdx - 1; i >= 0; i-- {
		if evs[i].Kind == vsched.EvLockGrant && evs[i].Tid == applier && evs[i].B == 1 {
			check, lock = i, evs[i].A
			break
		}
	}
	if check < 0 {
		return "unclassified"
	}
	// the client's write-lock grant on that lock inside the Set call of val
	callIdx, client := -1, int8(-1)
	for i, e := range evs {
		if e.Kind == evSetCall && e.B == val {
			callIdx, client = i, e.Tid
		}
	}
	if callIdx < 0 {
		return "unclassified"
	}
	for i := callIdx; i < len(evs); i++ {
		e := evs[i]
		if e.Tid == client && e.Kind == evSetRet && e.B == val {
			break
		}
		if e.Tid == client && e.Kind == vsched.EvLockGrant && e.A == lock && e.B == 2 {
			if i < check {
				return "rewrite-before-the-sweeps-check"
			}
			return "rewrite-between-the-sweeps-check-and-its-delete"
		}
	}
	return "unclassified"
}

func c14DFSOracle(x *Exec, res *vsched.Result, job *Job) []Viol {
	// in these scenarios capacity is ample and nobody calls Clear: every OnEvict comes from expiry processing
	out := sweepSafety(res.Events, func(int) bool { return true }, "C14")
	// bounded liveness at the end of the epilogue: count the ticks fired at least two bucket
	// lengths (1 s each) after an entry's expiry; with two or more, the entry must be gone
	if d := x.AfterEpi; d != nil {
		for _, e := range d.Store {
			if e.Expiration.IsZero() {
				continue
			}
			exp := e.Expiration.Sub(vtimeBase()).Nanoseconds()
			ticks := 0
			for _, ev := range res.Events {
				if ev.Kind == evTick && ev.T >= exp+2e9 {
					ticks++
				}
			}
			if ticks >= 2 {
				out = append(out, Viol{Key: "C14/expired-entry-never-swept", What: fmt.Sprintf("value %d of key %d expired at t=%dms; %d sweeps were triggered at least two bucket lengths later and the applier went idle after each, yet the entry is still stored", e.Value, e.Key, exp/1e6, ticks)})
			}
		}
	}
	return out
}

func c14Jobs(tier string) []Job {
	bound := 3
	if tier == "thorough" {
		bound = 4
	}
	var jobs []Job
	cfg := Cfg{NumCounters: 16, MaxCost: 8, BufferItems: 2, SetBuf: 3, TTLTick: 2, BucketSecs: 1, LogLocks: true}
	sttl := func(k int, ms int64) Op { return Op{K: "setttl", Key: k, Cost: 1, TTL: ms} }
	set := func(k int) Op { return Op{K: "set", Key: k, Cost: 1} }
	// one TTL entry plus a never-expiring neighbour in the same shard and a bucket-mate; the
	// bucket has become sweepable
	setup := []Op{sttl(1, 1000), set(257), sttl(2, 1000), {K: "wait"}, {K: "advance", N: 3000}}
	clients := map[string][]Op{
		"overwrite-later-ttl": {sttl(1, 10000), {K: "get", Key: 1}},
		"overwrite-no-ttl":    {set(1), {K: "get", Key: 1}},
		"del":                 {{K: "del", Key: 1}, {K: "get", Key: 257}},
		"del-reinsert":        {{K: "del", Key: 1}, sttl(1, 10000)},
		"get":                 {{K: "get", Key: 1}, {K: "get", Key: 257}},
		"overwrite-twice":     {set(1), sttl(1, 10000)},
	}
	// two clients re-writing the same key concurrently (TTL dropped | TTL set again), then the
	// clock moves on and two sweeps run: whatever expiration the entry ends up with must be honoured
	live := []Op{{K: "wait"}, {K: "advance", N: 3000}, {K: "tick"}, {K: "wait"}, {K: "advance", N: 3000}, {K: "tick"}, {K: "wait"}, {K: "tick"}, {K: "wait"}, {K: "get", Key: 1}}
	for i, pair := range [][2][]Op{{{set(1)}, {sttl(1, 1000)}}, {{sttl(1, 1500)}, {sttl(1, 1000)}}, {{set(1), sttl(1, 1200)}, {sttl(1, 1000)}}} {
		sc := &Scenario{Name: fmt.Sprintf("dfs/two-rewriters/%d", i), Cfg: cfg, Setup: []Op{sttl(1, 1000), {K: "wait"}}, Threads: [][]Op{cp(pair[0]), cp(pair[1])}, Epilogue: cp(live)}
		jobs = append(jobs, Job{Scenario: sc, Bound: bound})
	}
	// a client stalled inside SetWithTTL (after it fixed the expiration) while the clock moves on
	// and a sweep passes the bucket the overwrite will be filed under
	for i, st := range [][]Op{{set(1), {K: "wait"}}, {sttl(1, 1000), {K: "wait"}}, {sttl(1, 20000), {K: "wait"}}} {
		sc := &Scenario{Name: fmt.Sprintf("dfs/overwrite-stalled-across-a-sweep/%d", i), Cfg: cfg, Setup: cp(st),
			Threads: [][]Op{{sttl(1, 1000)}, {{K: "advance", N: 3000}, {K: "tick"}, {K: "wait"}}}, Epilogue: cp(live)}
		jobs = append(jobs, Job{Scenario: sc, Bound: bound})
	}
	for name, cl := range clients {
		sc := &Scenario{Name: "dfs/sweep|" + name, Cfg: cfg, Setup: cp(setup), Threads: [][]Op{{{K: "tick"}, {K: "get", Key: 2}}, cp(cl)},
			Epilogue: []Op{{K: "wait"}, {K: "get", Key: 1}, {K: "get", Key: 257}}}
		jobs = append(jobs, Job{Scenario: sc, Bound: bound})
	}
	return jobs
}

// sequential part: histories with stalls of the applier (clock and tick events before applier steps)
func c14SeqOracle(bucketNs int64) func(r *SeqRun) []Viol {
	return func(r *SeqRun) []Viol {
		// an OnEvict is "by the sweep" when it was logged during a history event in which the applier consumed a tick
		sweepEvent := map[int]bool{}
		for hi := range r.Hist {
			start, end := r.EvStart[hi], len(r.Events)
			if hi+1 < len(r.EvStart) {
				end = r.EvStart[hi+1]
			}
			for i := start; i < end; i++ {
				if r.Events[i].Kind == evSweep {
					for k := start; k < end; k++ {
						sweepEvent[k] = true
					}
				}
			}
		}
		out := sweepSafety(r.Events, func(i int) bool { return sweepEvent[i] }, "C14")
		// bounded liveness: an entry whose TTL elapsed at least two bucket lengths ago and that has
		// since seen two complete sweeps while stored must be gone
		tt := ttlTable(r.Events)
		for _, e := range r.Post.Store {
			ti := tt[e.Value]
			if ti == nil || ti.exp == 0 {
				continue
			}
			// when did the value enter the map?
			entered := -1
			for i, ev := range r.Events {
				if ev.Kind == evApplied && ev.B == e.Value && ev.C == 0 {
					entered = i
				}
				if ev.Kind == evSetRet && ev.B == e.Value && entered < 0 {
					entered = i // an overwrite of a resident key enters at the call
				}
			}
			// a qualifying sweep runs at least two bucket lengths after BOTH the expiry and the
			// moment the entry was stored (time-bucketed expiry needs the clock to move on)
			from := ti.exp
			if entered >= 0 && r.Events[entered].T > from {
				from = r.Events[entered].T
			}
			sweeps := 0
			for i, ev := range r.Events {
				if ev.Kind == evSweep && i > entered && ev.T >= from+2*bucketNs {
					sweeps++
				}
			}
			if sweeps >= 2 {
				key := "C14/expired-entry-never-swept"
				for _, b := range r.Post.Buckets {
					if b.Key == e.Key && b.Bucket <= r.Post.LastCl {
						key = "C14/late-apply-into-swept-bucket"
					}
				}
				out = append(out, Viol{Key: key, What: fmt.Sprintf("value %d of key %d expired at t=%dms; %d complete sweeps ran at least two bucket lengths after both its expiry and its insertion while it was stored, yet it is still in the map and its capacity is still held (t=%dms)", e.Value, ti.key, ti.exp/1e6, sweeps, r.Post.ClockNs/1e6)})
			}
		}
		// "its capacity released": at a drained state no capacity is held for a key that is not in
		// the map because its TTL entry was let go of (however that happened)
		if allIdle(r.Post.ClientState) && len(r.Post.SetBufItems) == 0 {
			stored := map[uint64]bool{}
			for _, e := range r.Post.Store {
				stored[e.Key] = true
			}
			for _, c := range r.Post.Costs {
				if stored[c.Key] {
					continue
				}
				// the last new item applied for this key
				var last *ttlInfo
				for _, ev := range r.Events {
					if ev.Kind == evApplied && ev.C == 0 && uint64(ev.A) == c.Key {
						last = tt[ev.B]
					}
				}
				if last != nil && last.exp != 0 && r.Post.ClockNs > last.exp {
					out = append(out, Viol{Key: "C14/capacity-of-expired-entry-not-released", What: fmt.Sprintf("key %d is charged %d but is not in the map; its last applied item had a TTL that elapsed at t=%dms (now t=%dms): the expired entry is gone, its capacity is not released", c.Key, c.Cost, last.exp/1e6, r.Post.ClockNs/1e6)})
				}
			}
		}
		return out
	}
}

func c14Seq(tier string) []SeqJob {
	var out []SeqJob
	mk := func(name string, keys []int, ttls []int64, depth int, secs float64, compound bool) {
		su := ""
		if keys[0] < 0 {
			su = "refuse-even" // Config.ShouldUpdate vetoes writes whose value id is even
			keys = keys[1:]
		}
		var alpha []Op
		for _, k := range keys {
			for _, t := range ttls {
				alpha = append(alpha, Op{K: "setttl", Key: k, Cost: 1, TTL: t})
			}
			alpha = append(alpha, Op{K: "set", Key: k, Cost: 1}, Op{K: "del", Key: k})
		}
		alpha = append(alpha, Op{K: "advance", N: 3000})
		if compound {
			// "applier stall": a tombstone for another key keeps the applier busy (it is handed
			// the tombstone directly), so that a later SetWithTTL waits in the buffer while the
			// clock moves on and a sweep overtakes it
			alpha = append(alpha, Op{K: "sweep"}, Op{K: "del", Key: 513}, Op{K: "advance+sweep", N: 3000})
		} else {
			alpha = append(alpha, Op{K: "tick"}, Op{K: "advance", N: 1000})
		}
		spec := &SeqSpec{Cfg: Cfg{NumCounters: 16, MaxCost: 8, BufferItems: 2, SetBuf: 3, TTLTick: 2, BucketSecs: 1, ShouldUpdate: su}, MaxDepth: depth,
			Alphabet: func(r *SeqRun) []Op { return alpha }, Oracle: c14SeqOracle(1e9),
			// the liveness oracle counts qualifying sweeps per stored entry: part of the state
			Abstract: func(r *SeqRun, ren func(int64) int64) string {
				tt := ttlTable(r.Events)
				s := ""
				for _, e := range r.Post.Store {
					ti := tt[e.Value]
					if ti == nil || ti.exp == 0 {
						continue
					}
					entered := -1
					for i, ev := range r.Events {
						if ev.Kind == evApplied && ev.B == e.Value && ev.C == 0 {
							entered = i
						}
						if ev.Kind == evSetRet && ev.B == e.Value && entered < 0 {
							entered = i
						}
					}
					from := ti.exp
					if entered >= 0 && r.Events[entered].T > from {
						from = r.Events[entered].T
					}
					n := 0
					for i, ev := range r.Events {
						if ev.Kind == evSweep && i > entered && ev.T >= from+2e9 {
							n++
						}
					}
					// "from" decides which future sweeps qualify, so it is part of the state too
					s += fmt.Sprintf("%d:%d@%d,", e.Key, min(n, 2), from)
				}
				return s
			}}
		out = append(out, SeqJob{Name: name, Spec: spec, Seconds: secs})
	}
	if tier == "quick" {
		mk("seq/1key/ttl{1,12}s/compound-sweep/depth6", []int{1}, []int64{1000, 12000}, 6, 40, true)
		mk("seq/2keys/ttl{1}s/compound-sweep/depth5", []int{1, 257}, []int64{1000}, 5, 40, true)
		mk("seq/1key/ttl{1,12}s/shouldupdate-vetoes/compound-sweep/depth6", []int{-1, 1}, []int64{1000, 12000}, 6, 40, true)
	} else {
		mk("seq/1key/ttl{1,3,12}s/compound-sweep/depth9", []int{1}, []int64{1000, 3000, 12000}, 9, 560, true)
		mk("seq/2keys/ttl{1,12}s/compound-sweep/depth7", []int{1, 257}, []int64{1000, 12000}, 7, 560, true)
		mk("seq/1key/ttl{1,12}s/tick-and-applier-separate/depth10", []int{1}, []int64{1000, 12000}, 10, 560, false)
		mk("seq/1key/ttl{1,3,12}s/shouldupdate-vetoes/compound-sweep/depth9", []int{-1, 1}, []int64{1000, 3000, 12000}, 9, 560, true)
	}
	return out
}

func init() {
	registerProp(&Prop{ID: "C07", Level: "model_checking",
		Rule: "explicit-state BFS over histories {SetWithTTL(k, ttl in {-1s,1s,3s,7s}), Set, Del, Get, GetTTL, IterValues, advance 1s / 5s, sweep} x every applier step under a virtual clock (expiry instants are exact), + preemptive DFS of reader | TTL-changing overwrite | sweep; " +
			"oracle: no Get/GetTTL/IterValues starting after callTime+ttl yields the value; a stored entry whose expiration is zero or not passed is never hidden; stored expiration == call time + ttl; GetTTL <= ttl, (0,true) for ttl=0; negative ttl returns false and changes nothing",
		Assume:  []string{"virtual clock: time moves only by explicit events, so 'starts after the expiration instant' is exact"},
		Seq:     c07Seq,
		Jobs:    c07Jobs,
		Oracle:  func(x *Exec, res *vsched.Result, job *Job) []Viol { return servedAfterTTL(res.Events, "C07") },
		Outcome: getOutcome,
	})
	registerProp(&Prop{ID: "C14", Level: "model_checking",
		Rule: "preemptive DFS: the applier executing the expiry sweep (every lock acquisition of the sweep is a schedule point) against a client that overwrites with a later TTL / with no TTL / deletes / deletes and re-inserts / reads, so that the re-write lands before the sweep, between bucket grab and per-key check, between check and removal, and after; " +
			"+ explicit-state BFS over histories {SetWithTTL, Set, Del, clock advance, tick/sweep} x applier steps (applier stalls = clock and tick events before applier steps); " +
			"oracle: every value removed by expiry processing had a non-zero expiration that has passed in the write that made it current; OnEvict/OnExit at most once per value; bounded liveness: an entry still stored after two complete sweeps that ran >= 2 bucket lengths after its expiry is a violation",
		Assume:  []string{"'eventually' is decided with a finite bound: two further sweeps after expiration + 2 bucket lengths", "in the DFS scenarios capacity is ample and Clear is not called, so every OnEvict comes from expiry processing"},
		Seq:     c14Seq,
		Jobs:    c14Jobs,
		Oracle:  c14DFSOracle,
		Outcome: getOutcome,
	})
}
