package main

import (
	"fmt"

	"verif/shim/vsched"
)

// C02 — a value the cache has handed to OnExit is never served again.
// C04 — every accepted value leaves through OnExit exactly once (preemptive part; the
// history part with every applier lag is explored by the sequential driver, see seq_c04.go).

func init() {
	registerProp(&Prop{ID: "C02", Level: "model_checking",
		Rule: "stateless DFS over all schedules within the preemption bound of a reader thread (Get/IterValues) against a thread that overwrites / deletes / clears / evicts / expires the key, " +
			"+ applier + policy goroutine + sweep ticks, after a set-up history that leaves the key resident (optionally with an overwrite still buffered); " +
			"oracle on every execution: no Get that STARTS after OnExit(v) was invoked returns v",
		Assume:  []string{"values are unique non-zero ids, one per Set call", "bounds: 2-3 client threads, <=2 ops each, preemption bound per scenario"},
		Jobs:    c02Jobs,
		Oracle:  func(x *Exec, res *vsched.Result, job *Job) []Viol { return append(servedAfterExit(res.Events, "C02"), provenance(res.Events, "C02")...) },
		Outcome: getOutcome,
		Seq:     c02Seq,
	})
	registerProp(&Prop{ID: "C04", Level: "model_checking",
		Rule: "stateless DFS over all schedules within the preemption bound of the racy pairs (overwrite|eviction, overwrite|Del, Set|Clear, overwrite|sweep, Del|Del, buffer-full drops), every execution ending with Close; " +
			"oracle: Set returned true => exactly one OnExit for its value by the end, false => no callback at all; OnEvict/OnReject at most once per value and immediately followed in the same thread by that value's OnExit; " +
			"at the return of each Clear/Close every value whose Set had returned true before that call began has had its OnExit; never served after OnExit",
		Assume:  []string{"values are unique non-zero ids; callbacks with the zero value (Del of an absent key etc.) are recorded but not judged", "key sets are collision-free (the property's quantifier does not include engineered hash collisions)"},
		Jobs:    c04Jobs,
		Oracle:  func(x *Exec, res *vsched.Result, job *Job) []Viol { return append(exactlyOnce(res.Events, "C04"), servedAfterExit(res.Events, "C04")...) },
		Outcome: getOutcome,
		Seq:     c04Seq,
	})
}

// servedAfterExit: for every found Get, no OnExit of the returned value precedes the Get call.
func servedAfterExit(evs []vsched.Event, id string) []Viol {
	exited := map[int64]int{} // value -> index of first OnExit
	// Get calls per thread: remember the index of the pending call
	pending := map[int8]int{}
	var out []Viol
	for i, e := range evs {
		switch e.Kind {
		case evOnExit:
			if e.A != 0 {
				if _, ok := exited[e.A]; !ok {
					exited[e.A] = i
				}
			}
		case evGetCall:
			pending[e.Tid] = i
		case evGetRet:
			if e.C == 0 || e.B == 0 {
				continue
			}
			call := pending[e.Tid]
			if x, ok := exited[e.B]; ok && x < call {
				out = append(out, Viol{Key: id + "/served-after-onexit", What: fmt.Sprintf("Get(%d) started at event %d and returned value %d, which had been passed to OnExit at event %d", e.A, call, e.B, x)})
			}
		}
	}
	return out
}

// exactlyOnce implements the C04 oracle on a complete execution that ended with Close.
func exactlyOnce(evs []vsched.Event, id string) []Viol {
	type vinfo struct {
		setRet   int // index of SetRet
		ok       bool
		known    bool
		exits    int
		evicts   int
		rejects  int
		firstExt int
	}
	vals := map[int64]*vinfo{}
	get := func(v int64) *vinfo {
		if vals[v] == nil {
			vals[v] = &vinfo{firstExt: -1, setRet: -1}
		}
		return vals[v]
	}
	var out []Viol
	closed := false
	for i, e := range evs {
		switch e.Kind {
		case evSetRet:
			vi := get(e.B)
			vi.setRet, vi.ok, vi.known = i, e.C == 1, true
		case evOnExit:
			if e.A == 0 {
				continue
			}
			vi := get(e.A)
			vi.exits++
			if vi.firstExt < 0 {
				vi.firstExt = i
			}
		case evOnEvict, evOnReject:
			if e.B == 0 {
				continue
			}
			vi := get(e.B)
			if e.Kind == evOnEvict {
				vi.evicts++
			} else {
				vi.rejects++
			}
			// must be immediately followed, in the same thread, by OnExit of the same value
			okNext := false
			for k := i + 1; k < len(evs); k++ {
				if evs[k].Tid != e.Tid {
					continue
				}
				okNext = evs[k].Kind == evOnExit && evs[k].A == e.B
				break
			}
			if !okNext {
				out = append(out, Viol{Key: id + "/evict-or-reject-not-followed-by-onexit", What: fmt.Sprintf("%s of value %d is not immediately followed by its OnExit in the same thread", evNames[e.Kind], e.B)})
			}
		case evCloseRet:
			closed = true
		}
	}
	// Clear / Close deadline: values accepted before the call began are released by its return
	type span struct{ call, ret int }
	var spans []span
	open := map[int8]int{}
	for i, e := range evs {
		switch e.Kind {
		case evClearCall, evCloseCall:
			open[e.Tid] = i
		case evClearRet, evCloseRet:
			spans = append(spans, span{open[e.Tid], i})
		}
	}
	for v, vi := range vals {
		if !vi.known {
			// a value seen only in callbacks: nobody stored it
			out = append(out, Viol{Key: id + "/callback-for-unknown-value", What: fmt.Sprintf("callback for value %d that no completed Set supplied", v)})
			continue
		}
		if !vi.ok {
			if vi.exits+vi.evicts+vi.rejects > 0 {
				out = append(out, Viol{Key: id + "/callback-for-dropped-set", What: fmt.Sprintf("Set of value %d returned false but the value reached a callback (OnExit x%d, OnEvict x%d, OnReject x%d)", v, vi.exits, vi.evicts, vi.rejects)})
			}
			continue
		}
		if vi.exits > 1 {
			out = append(out, Viol{Key: id + "/onexit-twice", What: fmt.Sprintf("value %d was passed to OnExit %d times", v, vi.exits)})
		}
		if vi.evicts > 1 || vi.rejects > 1 {
			out = append(out, Viol{Key: id + "/evict-or-reject-twice", What: fmt.Sprintf("value %d: OnEvict x%d OnReject x%d", v, vi.evicts, vi.rejects)})
		}
		if closed && vi.exits == 0 {
			out = append(out, Viol{Key: id + "/accepted-value-never-released", What: fmt.Sprintf("Set of value %d returned true but the value was never passed to OnExit, even after Close", v)})
		}
		for _, sp := range spans {
			if vi.setRet < sp.call && (vi.firstExt < 0 || vi.firstExt > sp.ret) {
				out = append(out, Viol{Key: id + "/not-released-by-clear-or-close", What: fmt.Sprintf("value %d was accepted (event %d) before a Clear/Close began (event %d) but had no OnExit when it returned (event %d)", v, vi.setRet, sp.call, sp.ret)})
				break
			}
		}
	}
	return out
}

func c02Jobs(tier string) []Job {
	var jobs []Job
	bound, cbound := 3, 2
	if tier == "thorough" {
		bound, cbound = 4, 3
	}
	epi := []Op{{K: "wait"}, {K: "get", Key: 1}, {K: "get", Key: 257}}
	set := func(k int) Op { return Op{K: "set", Key: k, Cost: 1} }
	setttl := func(k int, ms int64) Op { return Op{K: "setttl", Key: k, Cost: 1, TTL: ms} }
	get := func(k int) Op { return Op{K: "get", Key: k} }
	del := func(k int) Op { return Op{K: "del", Key: k} }
	add := func(name string, cfg Cfg, setup []Op, bnd int, threads ...[]Op) {
		var th [][]Op
		for _, t := range threads {
			th = append(th, cp(t))
		}
		jobs = append(jobs, Job{Scenario: &Scenario{Name: name, Cfg: cfg, Setup: cp(setup), Threads: th, Epilogue: cp(epi)}, Bound: bnd})
	}
	for _, sb := range []int{1, 3} {
		cfg := Cfg{NumCounters: 16, MaxCost: 2, BufferItems: 2, SetBuf: sb, TTLTick: 2, BucketSecs: 1}
		tag := fmt.Sprintf("setbuf%d/", sb)
		resident := []Op{set(1), {K: "wait"}}
		// an overwrite of the resident key is still buffered when the clients start
		buffered := []Op{set(1), {K: "wait"}, set(1)}
		readers := [][]Op{{get(1), get(1)}, {get(1), {K: "iter"}}}
		writers := map[string][]Op{
			"overwrite":      {set(1), get(1)},
			"overwrite-x2":   {set(1), set(1)},
			"del":            {del(1), get(1)},
			"del-reinsert":   {del(1), set(1)},
			"evicting-sets":  {set(257), set(2)},
			"ttl-overwrite":  {setttl(1, 1000), get(1)},
		}
		for wn, w := range writers {
			for ri, r := range readers {
				b := bound
				if ri == 1 {
					b = cbound - 1 // IterValues takes all 256 shard locks: every one is a preemption point
					if sb == 1 && tier != "thorough" {
						continue
					}
				}
				add(fmt.Sprintf("%sresident/%s/r%d", tag, wn, ri), cfg, resident, b, w, r)
			}
			if tier == "thorough" || sb == 3 {
				add(fmt.Sprintf("%sbuffered/%s/r0", tag, wn), cfg, buffered, bound, w, readers[0])
			}
		}
		add(tag+"resident/clear/r0", cfg, resident, cbound, []Op{{K: "clear"}, get(1)}, readers[0])
		add(tag+"buffered/clear/r1", cfg, buffered, cbound-1, []Op{{K: "clear"}}, readers[1])
		// expiry sweep: entry with TTL, clock advanced past it, tick; reader and re-writer race the sweep
		ttlSetup := []Op{setttl(1, 1000), {K: "wait"}, {K: "advance", N: 3000}}
		add(tag+"sweep/reader", cfg, ttlSetup, bound, []Op{{K: "tick"}}, []Op{get(1), get(1)})
		add(tag+"sweep/overwrite-reader", cfg, ttlSetup, bound, []Op{{K: "tick"}}, []Op{set(1), get(1)})
		// engineered primary-hash collisions: operations on key 2 must never release key 1's value
		coll := cfg
		coll.KeyHash = "collide"
		coll.MaxCost = 3
		add(tag+"collide/del-other|reader", coll, resident, bound, []Op{del(2), get(1)}, []Op{get(1), get(1)})
		add(tag+"collide/set-del-other|reader", coll, resident, bound, []Op{set(2), del(2)}, []Op{get(1), set(1)})
		if tier == "thorough" {
			add(tag+"sweep/overwrite+reader", cfg, ttlSetup, bound-1, []Op{{K: "tick"}}, []Op{set(1)}, []Op{get(1), get(1)})
			add(tag+"3threads/overwrite+del+reader", cfg, resident, bound-1, []Op{set(1)}, []Op{del(1)}, []Op{get(1), get(1)})
		}
	}
	return jobs
}

func c04Jobs(tier string) []Job {
	var jobs []Job
	bound, cbound := 3, 2
	if tier == "thorough" {
		bound, cbound = 4, 3
	}
	epi := []Op{{K: "get", Key: 1}, {K: "close"}}
	set := func(k int) Op { return Op{K: "set", Key: k, Cost: 1} }
	setttl := func(k int, ms int64) Op { return Op{K: "setttl", Key: k, Cost: 1, TTL: ms} }
	get := func(k int) Op { return Op{K: "get", Key: k} }
	del := func(k int) Op { return Op{K: "del", Key: k} }
	add := func(name string, cfg Cfg, setup []Op, bnd int, threads ...[]Op) {
		var th [][]Op
		for _, t := range threads {
			th = append(th, cp(t))
		}
		jobs = append(jobs, Job{Scenario: &Scenario{Name: name, Cfg: cfg, Setup: cp(setup), Threads: th, Epilogue: cp(epi)}, Bound: bnd})
	}
	for _, sb := range []int{1, 2} {
		for _, su := range []string{"", "refuse-even"} {
			if su != "" && sb == 2 && tier != "thorough" {
				continue
			}
			cfg := Cfg{NumCounters: 16, MaxCost: 2, BufferItems: 2, SetBuf: sb, TTLTick: 2, BucketSecs: 1, ShouldUpdate: su}
			tag := fmt.Sprintf("setbuf%d%s/", sb, map[string]string{"": "", "refuse-even": "-shouldupdate"}[su])
			resident := []Op{set(1), set(257), {K: "wait"}}
			add(tag+"overwrite|evicting-set", cfg, resident, bound, []Op{set(1), set(1)}, []Op{set(2), get(1)})
			add(tag+"overwrite|del", cfg, resident, bound, []Op{set(1), get(1)}, []Op{del(1), set(1)})
			add(tag+"del|del", cfg, resident, bound, []Op{del(1), set(1)}, []Op{del(1), get(1)})
			add(tag+"new|new-same-key", cfg, nil, bound, []Op{set(1), set(1)}, []Op{set(1), del(1)})
			add(tag+"oversized-overwrite|get", cfg, resident, bound, []Op{{K: "set", Key: 1, Cost: 3}, get(1)}, []Op{get(1), set(257)})
			add(tag+"set|clear", cfg, resident, cbound, []Op{set(1), set(2)}, []Op{{K: "clear"}})
			add(tag+"del+set|clear", cfg, resident, cbound, []Op{del(1), set(1)}, []Op{{K: "clear"}, set(257)})
			ttlSetup := []Op{setttl(1, 1000), set(257), {K: "wait"}, {K: "advance", N: 3000}}
			add(tag+"overwrite|sweep", cfg, ttlSetup, bound, []Op{{K: "tick"}, get(1)}, []Op{set(1), set(1)})
			add(tag+"del|sweep", cfg, ttlSetup, bound, []Op{{K: "tick"}}, []Op{del(1), setttl(1, 500)})
		}
	}
	return jobs
}

// c02Seq: explicit-state search over single-client histories with every applier lag; after every
// event the probe reads every key, so "no Get that starts after OnExit(v) returns v" is judged
// in every reachable state, not only where the history happens to contain a Get.
func c02Seq(tier string) []SeqJob {
	var out []SeqJob
	mk := func(name, hash string, keys []int, sb, depth int, secs float64) {
		var alpha []Op
		for _, k := range keys {
			alpha = append(alpha, Op{K: "set", Key: k, Cost: 1}, Op{K: "del", Key: k}, Op{K: "setttl", Key: k, Cost: 1, TTL: 1000})
		}
		alpha = append(alpha, Op{K: "clear"}, Op{K: "advance", N: 2000}, Op{K: "sweep"}, Op{K: "drain"})
		// an item larger than the whole cache, as a new key and as an overwrite of a resident one:
		// however the cache lets go of it, it must not serve it afterwards
		alpha = append(alpha, Op{K: "set", Key: keys[0], Cost: 3})
		spec := &SeqSpec{Cfg: Cfg{NumCounters: 16, MaxCost: 2, BufferItems: 2, SetBuf: sb, KeyHash: hash, TTLTick: 2, BucketSecs: 1}, MaxDepth: depth,
			Alphabet: func(r *SeqRun) []Op { return alpha },
			Oracle: func(r *SeqRun) []Viol {
				return append(servedAfterExit(r.Events, "C02"), provenance(r.Events, "C02")...)
			},
			Probe: func(c seqCache, r *SeqRun) {
				if allIdle(r.Post.ClientState) {
					for _, k := range keys {
						runOp(c, Op{K: "get", Key: k})
					}
				}
			},
		}
		out = append(out, SeqJob{Name: name, Spec: spec, Seconds: secs})
	}
	if tier == "quick" {
		mk("seq/keys1,257,2/setbuf2/depth5", "", []int{1, 257, 2}, 2, 5, 40)
		mk("seq/collide/keys1,2/setbuf2/depth6", "collide", []int{1, 2}, 2, 6, 40)
	} else {
		mk("seq/keys1,257,2/setbuf2/depth7", "", []int{1, 257, 2}, 2, 7, 560)
		mk("seq/keys1,257/setbuf1/depth8", "", []int{1, 257}, 1, 8, 560)
		mk("seq/collide/keys1,2/setbuf2/depth8", "collide", []int{1, 2}, 2, 8, 560)
	}
	return out
}

// ----- C04, sequential part ---------------------------------------------------------------------------

// c04SeqOracle: the exactly-once oracle on the full log, plus the state invariant that makes a
// leak visible without waiting for Close: the values whose Set returned true and that have not
// been passed to OnExit are exactly the values the cache still holds (stored entries and
// buffered new items).
func c04SeqOracle(r *SeqRun) []Viol {
	out := exactlyOnce(r.Events, "C04")
	out = append(out, servedAfterExit(r.Events, "C04")...)
	owed := map[int64]bool{}
	for _, e := range r.Events {
		switch e.Kind {
		case evSetRet:
			if e.C == 1 {
				owed[e.B] = true
			}
		case evOnExit:
			delete(owed, e.A)
		}
	}
	held := map[int64]bool{}
	for _, e := range r.Post.Store {
		held[e.Value] = true
	}
	for _, it := range r.Post.SetBufItems {
		if it.Flag == 0 && !it.IsWait {
			if v, ok := it.Value.(int64); ok {
				held[v] = true
			}
		}
	}
	// (The converse — an accepted, unreleased value that is neither stored nor buffered — is NOT
	// judged here: the property allows the release to be deferred until the next Clear / Close.
	// Such a leak is caught one event later, because Close is an event of the alphabet in every
	// state and the exactly-once oracle then finds the value never released.)
	_ = owed
	for v := range held {
		if !owed[v] && v != 0 {
			out = append(out, Viol{Key: "C04/released-value-still-held", What: fmt.Sprintf("value %d is still held by the cache although it was passed to OnExit or its Set returned false", v)})
		}
	}
	return out
}

func c04Seq(tier string) []SeqJob {
	var out []SeqJob
	mk := func(name string, sb int, su string, depth int, secs float64) {
		alpha := []Op{{K: "set", Key: 1, Cost: 1}, {K: "del", Key: 1}, {K: "set", Key: 257, Cost: 1}, {K: "setttl", Key: 1, Cost: 1, TTL: 1000}, {K: "set", Key: 2, Cost: 2},
			{K: "set", Key: 1, Cost: 3}, // larger than the whole cache (MaxCost 2): as a new item and as an overwrite
			{K: "get", Key: 1}, {K: "clear"}, {K: "close"}, {K: "advance", N: 3000}, {K: "sweep"}, {K: "drain"}}
		spec := &SeqSpec{Cfg: Cfg{NumCounters: 16, MaxCost: 2, BufferItems: 2, SetBuf: sb, ShouldUpdate: su, TTLTick: 2, BucketSecs: 1, MapOrder: "rot"}, MaxDepth: depth,
			Alphabet: func(r *SeqRun) []Op { return alpha },
			Oracle:   c04SeqOracle,
			Terminal: func(r *SeqRun) bool { return r.Post.IsClosed },
		}
		out = append(out, SeqJob{Name: name, Spec: spec, Seconds: secs})
	}
	if tier == "quick" {
		mk("seq/setbuf1/depth6", 1, "", 6, 40)
		mk("seq/setbuf2/depth5", 2, "", 5, 40)
		mk("seq/setbuf2/shouldupdate-refuses-even/depth5", 2, "refuse-even", 5, 40)
	} else {
		mk("seq/setbuf1/depth8", 1, "", 8, 560)
		mk("seq/setbuf2/depth7", 2, "", 7, 560)
		mk("seq/setbuf1/shouldupdate-refuses-even/depth7", 1, "refuse-even", 7, 560)
		mk("seq/setbuf2/shouldupdate-refuses-even/depth7", 2, "refuse-even", 7, 560)
	}
	return out
}
