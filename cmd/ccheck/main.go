// ccheck: bounded exhaustive exploration of the real cache / allocator code under the
// controlled scheduler (C01-C09, C12-C15, C17). The parent process deals scenarios to worker
// subprocesses (one controlled scheduler per process, GOMAXPROCS=1 each).
package main

import (
	"bufio"
	"encoding/json"
	"fmt"
	"os"
	"os/exec"
	"runtime"
	"sort"
	"strconv"
	"strings"
	"sync"
	"time"

	"verif/explore"
	"verif/internal/ev"
	"verif/shim/vsched"
)

// Viol is one oracle failure of one execution.
type Viol struct {
	Key  string `json:"key"`
	What string `json:"what"`
}

// Job is one unit of work for a worker: explore one scenario.
type Job struct {
	Prop     string    `json:"prop"`
	Scenario *Scenario `json:"scenario"`
	Bound    int       `json:"bound"`
	MaxExecs int64     `json:"max_execs,omitempty"`
	Seconds  float64   `json:"seconds,omitempty"` // per-job wall budget (0 = none)
	Race     bool      `json:"race,omitempty"`
	Mode     string    `json:"mode,omitempty"` // "" dfs | "replay"
	Choices  []int     `json:"choices,omitempty"`
	Aux      string    `json:"aux,omitempty"` // property-specific (name of the sequential specification)
	Tier     string    `json:"tier,omitempty"`
}

type ViolReport struct {
	Viol
	Scenario *Scenario `json:"scenario"`
	Choices  []int     `json:"choices"`
	Bound    int       `json:"bound"`
	Trace    []string  `json:"trace,omitempty"`
	Events   []string  `json:"events,omitempty"`
	Stable   bool      `json:"reproduced_twice"`
	// sequential-driver violations: the specification name, its cache configuration and the history
	SeqName string     `json:"seq_spec,omitempty"`
	SeqCfg  *Cfg       `json:"seq_cfg,omitempty"`
	SeqHist []SeqEvent `json:"seq_history,omitempty"`
}

type JobResult struct {
	Name      string           `json:"name"`
	Execs     int64            `json:"execs"`
	Points    int64            `json:"points"`
	MaxDepth  int              `json:"max_depth"`
	Complete  bool             `json:"complete"`
	CapHit    string           `json:"cap_hit,omitempty"`
	Outcomes  map[string]int64 `json:"outcomes"`
	Viols     []ViolReport     `json:"viols,omitempty"`
	ViolCount int64            `json:"viol_count"`
	States    int64            `json:"states,omitempty"`
	Err       string           `json:"err,omitempty"`
	Sample    []string         `json:"sample,omitempty"`
	WallS     float64          `json:"wall_s"`
}

// Prop is one property check.
type Prop struct {
	ID    string
	Level string
	// Jobs returns the scenarios to explore for a tier.
	Jobs func(tier string) []Job
	// Oracle judges one finished execution. It must only look at res / x.
	Oracle func(x *Exec, res *vsched.Result, job *Job) []Viol
	// Outcome labels an execution for the distinct-outcome count (optional).
	Outcome func(x *Exec, res *vsched.Result) string
	// Extra probe run by the main thread after the epilogue (optional).
	Extra func(x *Exec)
	// Custom runs a job without the generic scenario machinery (optional, e.g. C12).
	Custom func(job *Job) *JobResult
	// Seq returns the specifications of the sequential-driver search (optional).
	Seq func(tier string) []SeqJob
	// SeqByName resolves the specification named in a replay file (optional).
	SeqByName func(name string) *SeqSpec
	// Describe fills the evidence coverage (rule, assumptions).
	Rule   string
	Assume []string
}

var props = map[string]*Prop{}

func registerProp(p *Prop) { props[p.ID] = p }

func main() {
	if len(os.Args) >= 2 && os.Args[1] == "--worker" {
		worker()
		return
	}
	if len(os.Args) >= 4 && os.Args[1] == "--jobs" {
		jobs := props[os.Args[2]].Jobs(os.Args[3])
		for i := range jobs {
			jobs[i].Prop = os.Args[2]
			if jobs[i].Scenario != nil {
				jobs[i].Scenario.Number()
			}
			b, _ := json.Marshal(jobs[i])
			fmt.Println(string(b))
		}
		return
	}
	if len(os.Args) < 3 {
		fmt.Fprintln(os.Stderr, "usage: ccheck <ID> <quick|thorough> [--replay path]")
		os.Exit(2)
	}
	id, tier := os.Args[1], os.Args[2]
	replay := ""
	for i := 3; i+1 < len(os.Args); i++ {
		if os.Args[i] == "--replay" {
			replay = os.Args[i+1]
		}
	}
	p, ok := props[id]
	if !ok {
		ev.Fatalf("ccheck: unknown property %s", id)
	}
	if tier != "quick" && tier != "thorough" {
		ev.Fatalf("ccheck: bad tier %s", tier)
	}
	if replay != "" {
		os.Exit(doReplay(p, replay))
	}
	r := ev.NewRun(id, tier, p.Level)
	var jobs []Job
	if p.Jobs != nil {
		jobs = p.Jobs(tier)
	}
	if p.Seq != nil {
		for _, sj := range p.Seq(tier) {
			jobs = append(jobs, Job{Mode: "seq", Aux: sj.Name, Seconds: sj.Seconds, Bound: -1})
		}
	}
	for i := range jobs {
		jobs[i].Tier = tier
		jobs[i].Prop = id
		if jobs[i].Scenario != nil && jobs[i].Scenario.Threads != nil {
			jobs[i].Scenario.Number()
		}
	}
	for i := range jobs {
		if jobs[i].Seconds == 0 {
			jobs[i].Seconds = 45
			if tier == "thorough" {
				jobs[i].Seconds = 600
			}
		}
	}
	results := runJobs(jobs)
	summarize(p, r, jobs, results)
	os.Exit(r.Finish())
}

func summarize(p *Prop, r *ev.Run, jobs []Job, results []*JobResult) {
	var execs, points, states int64
	maxDepth := 0
	complete := true
	outcomes := map[string]int64{}
	var caps []string
	perScenario := []map[string]any{}
	for i, res := range results {
		if res.Err != "" {
			ev.Fatalf("job %s failed: %s", res.Name, res.Err)
		}
		execs += res.Execs
		points += res.Points
		states += res.States
		if res.MaxDepth > maxDepth {
			maxDepth = res.MaxDepth
		}
		if !res.Complete {
			complete = false
			caps = append(caps, res.Name+": "+res.CapHit)
		}
		for k, v := range res.Outcomes {
			outcomes[k] += v
		}
		perScenario = append(perScenario, map[string]any{"scenario": res.Name, "bound": jobs[i].Bound, "race_build": jobs[i].Race,
			"executions": res.Execs, "transitions": res.Points, "complete": res.Complete, "distinct_outcomes": len(res.Outcomes), "wall_s": res.WallS})
		for _, v := range res.Viols {
			r.Violation(v.Key, v.What, v)
		}
		if len(res.Sample) > 0 && i%max(1, len(results)/6) == 0 {
			if jobs[i].Mode == "seq" {
				r.Sample(map[string]any{"sequential_spec": jobs[i].Aux, "a_history_at_the_depth_bound": res.Sample})
			} else {
				r.Sample(map[string]any{"scenario": jobs[i].Scenario, "bound": jobs[i].Bound, "default_schedule_trace": res.Sample})
			}
		}
	}
	nontrivial := 0
	for k := range outcomes {
		if !strings.HasPrefix(k, "trivial") {
			nontrivial++
		}
	}
	r.Cov["evaluations"] = execs
	r.Cov["traces_validated_against_impl"] = execs
	r.Cov["transitions"] = points
	if states == 0 {
		states = int64(len(outcomes))
	}
	r.Cov["states"] = states
	r.Cov["distinct_nontrivial"] = nontrivial
	r.Cov["distinct_outcomes"] = len(outcomes)
	r.Cov["scenarios"] = len(jobs)
	r.Cov["max_depth"] = maxDepth
	r.Cov["exhaustive"] = complete
	if len(caps) > 0 {
		r.Cov["caps_hit"] = caps
	}
	r.Cov["per_scenario"] = perScenario
	r.Cov["rule"] = p.Rule
	r.Assume = p.Assume
}

// ----- parent: worker pool -----------------------------------------------------------------------------

func numWorkers() int {
	if s := os.Getenv("VERIF_WORKERS"); s != "" {
		if n, err := strconv.Atoi(s); err == nil && n > 0 {
			return n
		}
	}
	n := runtime.NumCPU()
	if n > 16 {
		n = 16
	}
	return n
}

func runJobs(jobs []Job) []*JobResult {
	results := make([]*JobResult, len(jobs))
	type item struct{ idx int }
	ch := make(chan int, len(jobs))
	// biggest bounds first for better balance
	order := make([]int, len(jobs))
	for i := range order {
		order[i] = i
	}
	sort.SliceStable(order, func(a, b int) bool { return jobs[order[a]].Bound > jobs[order[b]].Bound })
	for _, i := range order {
		ch <- i
	}
	close(ch)
	var wg sync.WaitGroup
	n := numWorkers()
	if n > len(jobs) {
		n = len(jobs)
	}
	for w := 0; w < n; w++ {
		wg.Add(1)
		go func(w int) {
			defer wg.Done()
			var normal, race *workerProc
			defer func() {
				normal.stop()
				race.stop()
			}()
			for i := range ch {
				j := &jobs[i]
				wp := &normal
				bin := os.Args[0]
				if j.Race {
					wp = &race
					bin = os.Getenv("VERIF_RACE_BIN")
					if bin == "" {
						results[i] = &JobResult{Name: j.name(), Err: "race job but VERIF_RACE_BIN is not set"}
						continue
					}
				}
				if *wp == nil {
					*wp = startWorker(bin, w, j.Race)
				}
				res := (*wp).run(j)
				if (*wp).dead {
					(*wp).stop()
					*wp = nil
				}
				results[i] = res
			}
		}(w)
	}
	wg.Wait()
	return results
}

func (j *Job) name() string {
	if j.Scenario != nil {
		s := j.Scenario.Name
		if j.Race {
			s += " [race]"
		}
		return s
	}
	return j.Aux
}

type workerProc struct {
	cmd     *exec.Cmd
	in      *bufio.Writer
	out     *bufio.Reader
	stderr  *strings.Builder
	dead    bool
	curFile string
	mu      sync.Mutex
}

func startWorker(bin string, w int, race bool) *workerProc {
	cmd := exec.Command(bin, "--worker")
	cmd.Env = append(os.Environ(), "GOMAXPROCS=1", "GODEBUG=asyncpreemptoff=1")
	wp := &workerProc{cmd: cmd, stderr: &strings.Builder{}}
	if race {
		dir := os.Getenv("VERIF_WORKDIR")
		if dir == "" {
			dir = os.TempDir()
		}
		wp.curFile = fmt.Sprintf("%s/race-cur-%d-%d.json", dir, os.Getpid(), w)
		cmd.Env = append(cmd.Env, "GORACE=halt_on_error=1 exitcode=66", "VERIF_CUR_FILE="+wp.curFile)
	}
	stdin, _ := cmd.StdinPipe()
	stdout, _ := cmd.StdoutPipe()
	cmd.Stderr = wp.stderr
	if err := cmd.Start(); err != nil {
		ev.Fatalf("cannot start worker: %v", err)
	}
	wp.in = bufio.NewWriter(stdin)
	wp.out = bufio.NewReaderSize(stdout, 1<<20)
	return wp
}

func (w *workerProc) stop() {
	if w == nil {
		return
	}
	if w.curFile != "" {
		_ = os.Remove(w.curFile)
	}
	if w.cmd == nil || w.cmd.Process == nil {
		return
	}
	_ = w.cmd.Process.Kill()
	_ = w.cmd.Wait()
	if w.curFile != "" {
		_ = os.Remove(w.curFile)
	}
}

func (w *workerProc) run(j *Job) *JobResult {
	b, _ := json.Marshal(j)
	w.in.Write(b)
	w.in.WriteByte('\n')
	if err := w.in.Flush(); err != nil {
		w.dead = true
		return &JobResult{Name: j.name(), Err: "worker write: " + err.Error()}
	}
	type rd struct {
		line []byte
		err  error
	}
	rc := make(chan rd, 1)
	go func() {
		l, e := w.out.ReadBytes('\n')
		rc <- rd{l, e}
	}()
	var line []byte
	var err error
	select {
	case x := <-rc:
		line, err = x.line, x.err
	case <-time.After(time.Duration((j.Seconds*2+120)*float64(time.Second))):
		// the worker ignored its own deadline: a hang inside one execution
		_ = w.cmd.Process.Kill()
		x := <-rc
		line, err = x.line, x.err
		if err == nil {
			err = fmt.Errorf("watchdog")
		}
		w.dead = true
		_ = w.cmd.Wait()
		w.cmd = nil
		return &JobResult{Name: j.name(), Err: "worker exceeded twice its time budget (hang inside an execution?): " + truncate(w.stderr.String(), 2000)}
	}
	if err != nil {
		// the worker died: under the race build this is how a data race is reported
		w.dead = true
		_ = w.cmd.Wait()
		code := w.cmd.ProcessState.ExitCode()
		stderr := w.stderr.String()
		if j.Race && (code == 66 || strings.Contains(stderr, "DATA RACE")) {
			res := &JobResult{Name: j.name(), Complete: false, CapHit: "stopped at first race report", Outcomes: map[string]int64{"race": 1}, Execs: 1, Points: 1}
			var cur struct {
				Choices []int `json:"choices"`
				Execs   int64 `json:"execs"`
				Points  int64 `json:"points"`
			}
			if cb, err := os.ReadFile(w.curFile); err == nil {
				_ = json.Unmarshal(cb, &cur)
				if cur.Execs > 0 {
					res.Execs, res.Points = cur.Execs, cur.Points
				}
			}
			rep := raceSummary(stderr)
			res.Viols = []ViolReport{{Viol: Viol{Key: props[j.Prop].ID + "/data-race:" + raceKey(stderr), What: "data race reported by the Go race detector on an explored schedule: " + rep},
				Scenario: j.Scenario, Choices: cur.Choices, Bound: j.Bound, Trace: strings.Split(truncate(stderr, 6000), "\n"), Stable: true}}
			res.ViolCount = 1
			w.cmd = nil
			return res
		}
		w.cmd = nil
		return &JobResult{Name: j.name(), Err: fmt.Sprintf("worker died (exit %d): %s", code, truncate(stderr, 4000))}
	}
	var res JobResult
	if err := json.Unmarshal(line, &res); err != nil {
		w.dead = true
		return &JobResult{Name: j.name(), Err: "bad worker reply: " + err.Error()}
	}
	return &res
}

func truncate(s string, n int) string {
	if len(s) > n {
		return s[:n] + "…"
	}
	return s
}

// raceKey extracts the two top user frames of a race report as a stable classifier.
func raceKey(report string) string {
	var fns []string
	lines := strings.Split(report, "\n")
	for i, l := range lines {
		l = strings.TrimSpace(l)
		if (strings.HasPrefix(l, "Write at") || strings.HasPrefix(l, "Read at") || strings.HasPrefix(l, "Previous write at") || strings.HasPrefix(l, "Previous read at")) && i+1 < len(lines) {
			for k := i + 1; k < len(lines) && k < i+12; k++ {
				f := strings.TrimSpace(lines[k])
				if f == "" {
					break
				}
				if strings.Contains(f, "ristretto") && !strings.HasPrefix(f, "/") {
					fns = append(fns, funcName(f))
					break
				}
			}
		}
	}
	sort.Strings(fns)
	if len(fns) > 2 {
		fns = fns[:2]
	}
	return strings.Join(fns, "+")
}

// funcName reduces a stack-trace function line such as
// "github.com/dgraph-io/ristretto/v2.(*defaultPolicy[...]).Cap()" to "(*defaultPolicy).Cap".
func funcName(l string) string {
	l = strings.TrimSpace(l)
	if p := strings.LastIndex(l, "("); p > 0 {
		l = l[:p]
	}
	if p := strings.LastIndex(l, "/"); p >= 0 {
		l = l[p+1:]
	}
	if p := strings.Index(l, "."); p >= 0 {
		l = l[p+1:]
	}
	l = strings.ReplaceAll(l, "[...]", "")
	return l
}

func raceSummary(report string) string {
	return raceKey(report)
}

// ----- worker ------------------------------------------------------------------------------------------

func worker() {
	runtime.GOMAXPROCS(1)
	in := bufio.NewReaderSize(os.Stdin, 1<<20)
	out := bufio.NewWriter(os.Stdout)
	for {
		line, err := in.ReadBytes('\n')
		if err != nil {
			return
		}
		var j Job
		if err := json.Unmarshal(line, &j); err != nil {
			fmt.Fprintln(os.Stderr, "worker: bad job:", err)
			os.Exit(3)
		}
		res := runJob(&j)
		b, _ := json.Marshal(res)
		out.Write(b)
		out.WriteByte('\n')
		out.Flush()
		if vsched.Stuck {
			os.Exit(0) // a stuck goroutine poisons the process: the parent starts a fresh worker
		}
	}
}

func runJob(j *Job) (res *JobResult) {
	p := props[j.Prop]
	start := time.Now()
	defer func() {
		if r := recover(); r != nil {
			res = &JobResult{Name: j.name(), Err: fmt.Sprint("harness panic: ", r)}
		}
		res.WallS = time.Since(start).Seconds()
	}()
	if j.Mode == "seq" {
		spec := findSeq(p, j.Tier, j.Aux)
		if spec == nil {
			return &JobResult{Name: j.name(), Err: "unknown sequential specification " + j.Aux}
		}
		r := seqSearch(p, j, spec)
		for i := range r.Viols {
			r.Viols[i].SeqName = j.Aux
		}
		return r
	}
	if p.Custom != nil {
		return p.Custom(j)
	}
	return exploreScenario(p, j)
}

// exploreScenario is the generic DFS over one scenario.
func exploreScenario(p *Prop, j *Job) *JobResult {
	s := j.Scenario
	x := &Exec{Extra: p.Extra}
	body := s.body(x)
	oracle := func(r *vsched.Result) []Viol { return p.Oracle(x, r, j) }
	var outcome func(r *vsched.Result) string
	if p.Outcome != nil {
		outcome = func(r *vsched.Result) string { return p.Outcome(x, r) }
	}
	return exploreBody(p, j, body, oracle, outcome)
}

// exploreBody runs the preemption-bounded DFS over body and judges every execution.
func exploreBody(p *Prop, j *Job, body func(), oracle func(r *vsched.Result) []Viol, outcome func(r *vsched.Result) string) *JobResult {
	s := j.Scenario
	res := &JobResult{Name: j.name(), Outcomes: map[string]int64{}}
	seenKeys := map[string]int{}
	curFile := os.Getenv("VERIF_CUR_FILE")
	var execs, points int64
	judgeRes := func(r *vsched.Result) []Viol {
		switch r.Outcome {
		case vsched.Deadlock:
			return []Viol{{Key: p.ID + "/deadlock", What: "deadlock: " + r.Detail}}
		case vsched.Livelock:
			return []Viol{{Key: p.ID + "/livelock", What: "step horizon exceeded: " + r.Detail}}
		case vsched.Panicked:
			return []Viol{{Key: p.ID + "/panic:" + panicKey(r.Detail), What: "panic: " + firstLine(r.Detail)}}
		case vsched.ReplayDiverged:
			return nil
		}
		return oracle(r)
	}
	verdict := func(r *vsched.Result, choices []int) string {
		execs++
		points += int64(len(r.Points))
		if raceMode {
			if curFile != "" {
				b, _ := json.Marshal(map[string]any{"choices": choices, "execs": execs, "points": points})
				_ = os.WriteFile(curFile, b, 0o644)
			}
			// functional oracles are off under the race build: only panics / deadlocks count
			if r.Outcome != vsched.Done {
				return string(r.Outcome.String())
			}
			return "ok"
		}
		viols := judgeRes(r)
		label := "ok"
		if outcome != nil && r.Outcome == vsched.Done {
			label = outcome(r)
		}
		if len(viols) > 0 {
			label = "VIOLATION " + viols[0].Key
			res.ViolCount += int64(len(viols))
			for _, v := range viols {
				if seenKeys[v.Key] >= 1 {
					continue
				}
				seenKeys[v.Key]++
				res.Viols = append(res.Viols, ViolReport{Viol: v, Scenario: s, Choices: append([]int(nil), choices...), Bound: j.Bound, SeqName: j.Aux})
			}
		}
		return label
	}
	if raceMode && curFile != "" {
		// written before each execution starts (the race detector kills the process mid-run)
		_ = os.WriteFile(curFile, []byte(`{"choices":[]}`), 0o644)
	}
	opts := explore.Options{Bound: j.Bound, MaxExecs: j.MaxExecs, MaxSteps: 5000}
	if j.Seconds > 0 {
		opts.Deadline = time.Now().Add(time.Duration(j.Seconds * float64(time.Second)))
	}
	st := explore.DFS(body, verdict, opts)
	res.Execs, res.Points, res.MaxDepth, res.Complete, res.CapHit = st.Execs, st.Points, st.MaxDepth, st.Complete, st.CapHit
	for k, v := range st.Outcomes {
		res.Outcomes[k] = v
	}
	// confirm every reported violation by replaying its schedule twice, and attach the trace
	if !raceMode {
		for i := range res.Viols {
			v := &res.Viols[i]
			ok := 0
			for k := 0; k < 2; k++ {
				rr := explore.Replay(body, v.Choices, 5000)
				for _, a := range judgeRes(rr) {
					if a.Key == v.Key {
						ok++
						break
					}
				}
				if k == 1 {
					v.Trace = rr.Trace
					v.Events = fmtEvents(rr.Events)
				}
			}
			v.Stable = ok == 2
			if !v.Stable {
				res.Err = fmt.Sprintf("violation %s did not reproduce when its schedule was replayed (uncontrolled nondeterminism)", v.Key)
			}
		}
		// sample: the default schedule's trace
		rr := explore.Replay(body, nil, 5000)
		res.Sample = rr.Trace
		if len(res.Sample) > 60 {
			res.Sample = append(res.Sample[:60], "…")
		}
	}
	return res
}

func judge(p *Prop, x *Exec, r *vsched.Result, j *Job) []Viol {
	switch r.Outcome {
	case vsched.Deadlock:
		return []Viol{{Key: p.ID + "/deadlock", What: r.Detail}}
	case vsched.Livelock:
		return []Viol{{Key: p.ID + "/livelock", What: r.Detail}}
	case vsched.Panicked:
		return []Viol{{Key: p.ID + "/panic:" + panicKey(r.Detail), What: firstLine(r.Detail)}}
	case vsched.ReplayDiverged:
		return nil
	}
	return p.Oracle(x, r, j)
}

func firstLine(s string) string {
	if i := strings.Index(s, "\n"); i >= 0 {
		return s[:i]
	}
	return s
}

// panicKey: the innermost ristretto frame of a panic stack, as a stable classifier.
func panicKey(detail string) string {
	for _, l := range strings.Split(detail, "\n") {
		l = strings.TrimSpace(l)
		if strings.Contains(l, "ristretto/v2") && !strings.HasPrefix(l, "/") {
			return funcName(l)
		}
	}
	return "unknown"
}

// ----- replay ------------------------------------------------------------------------------------------

func doReplay(p *Prop, path string) int {
	b, err := os.ReadFile(path)
	if err != nil {
		ev.Fatalf("replay: %v", err)
	}
	var f struct {
		Property string     `json:"property"`
		Key      string     `json:"key"`
		Replay   ViolReport `json:"replay"`
	}
	if err := json.Unmarshal(b, &f); err != nil {
		ev.Fatalf("replay: %v", err)
	}
	if f.Replay.SeqHist != nil {
		runtime.GOMAXPROCS(1)
		spec := findSeq(p, "thorough", f.Replay.SeqName)
		if spec == nil {
			ev.Fatalf("replay: unknown sequential specification %q", f.Replay.SeqName)
		}
		run := runHistory(spec, f.Replay.SeqHist)
		fmt.Println("history:", histString(f.Replay.SeqHist))
		for _, l := range fmtEvents(run.Events) {
			fmt.Println("   ", l)
		}
		if run.Post != nil {
			fmt.Printf("final state: store=%v costs=%v pending-writes=%v clients=%s daemons=%d closed=%v\n", run.Post.Store, run.Post.Costs, run.Post.SetBufItems, run.Post.ClientState, run.Post.Daemons, run.Post.IsClosed)
		}
		var viols []Viol
		switch run.Outcome {
		case vsched.Done:
			viols = spec.Oracle(run)
		case vsched.Panicked:
			viols = []Viol{{Key: p.ID + "/panic:" + panicKey(run.Detail), What: firstLine(run.Detail)}}
		case vsched.Deadlock:
			viols = []Viol{{Key: p.ID + "/deadlock", What: run.Detail}}
		}
		for _, v := range viols {
			fmt.Printf("violation: %s: %s\n", v.Key, v.What)
			if v.Key == f.Key {
				fmt.Printf("VIOLATION property=%s replay=%s\n", p.ID, path)
				return 1
			}
		}
		fmt.Println("the recorded violation does not occur on this tree")
		return 0
	}
	if f.Replay.Scenario == nil {
		ev.Fatalf("replay: file has no scenario")
	}
	runtime.GOMAXPROCS(1)
	x := &Exec{Extra: p.Extra}
	j := &Job{Prop: p.ID, Scenario: f.Replay.Scenario, Bound: f.Replay.Bound}
	rr := explore.Replay(f.Replay.Scenario.body(x), f.Replay.Choices, 5000)
	for _, l := range rr.Trace {
		fmt.Println(l)
	}
	for _, l := range fmtEvents(rr.Events) {
		fmt.Println("   ", l)
	}
	viols := judge(p, x, rr, j)
	fmt.Printf("outcome: %v %s\n", rr.Outcome, rr.Detail)
	for _, v := range viols {
		fmt.Printf("violation: %s: %s\n", v.Key, v.What)
		if v.Key == f.Key {
			fmt.Printf("VIOLATION property=%s replay=%s\n", p.ID, path)
			return 1
		}
	}
	fmt.Println("the recorded violation does not occur on this tree")
	return 0
}
