package main

import (
	"encoding/json"
	"fmt"
	"sort"
	"time"

	"verif/shim/vsched"
)

// C09 — admission and eviction follow the TinyLFU / sampled-LFU discipline.
//
// Exhaustive enumeration of (resident population, cost assignment, access-frequency assignment,
// incoming (key, cost, frequency), order of the sampling map): every configuration is BUILT on a
// real cache through the public API under the sequential driver (Sets + applier steps for the
// residents, real Gets + policy-goroutine steps for the frequencies, BufferItems = 1), then the
// incoming Set is issued and the single applier step that decides it is judged, for every
// permutation (n <= 4) or rotation (n >= 5) of the sampling map's iteration order.

type c09Config struct {
	// Sequel: after the first incoming item was decided, resident key SeqDel is deleted (and the
	// tombstone applied), then a second new key (8) arrives after SeqFreq Gets with cost SeqCost:
	// decisions must not depend on leftovers of an earlier admission attempt
	// Poison: five hot residents make a first newcomer fail, then ALL of them are deleted and five
	// cold keys take their place; a second newcomer (warmer than every resident) must be judged
	// against the residents of that moment, not against candidates sampled for the first one
	Poison  bool  `json:"stale_pool,omitempty"`
	HotGets int   `json:"hot_gets,omitempty"`
	Sequel  bool  `json:"sequel,omitempty"`
	SeqDel  int   `json:"sequel_del_key,omitempty"`
	SeqCost int64 `json:"sequel_cost,omitempty"`
	SeqFreq int   `json:"sequel_gets,omitempty"`
	// Aged: a small counter table (NumCounters 8: an aging reset every 8 recorded accesses). The
	// newcomer (key 9) is offered once, then AgeGets more Gets go to the residents (round robin;
	// the aging reset falls somewhere in there), then key 9 gets SeqFreq Gets and is offered again:
	// the second decision must be made on the estimates of THAT moment
	Aged    bool `json:"aged,omitempty"`
	AgeGets int  `json:"gets_between_the_two_offers,omitempty"`
	MaxCost  int64   `json:"max_cost"`
	Costs    []int64 `json:"resident_costs"`  // resident i has key i+1
	Freq     []int   `json:"resident_gets"`   // number of Gets per resident
	InKey    int     `json:"incoming_key"`    // 9 = new key, 0 = "a key that is already accounted" (set twice)
	InCost   int64   `json:"incoming_cost"`
	InFreq   int     `json:"incoming_gets"`
	MapOrder string  `json:"map_order"`
}

func c09History(cf *c09Config) []SeqEvent {
	if cf.Poison {
		return c09PoisonHistory(cf)
	}
	if cf.Aged {
		return c09AgedHistory(cf)
	}
	var h []SeqEvent
	op := func(o Op) {
		if o.K == "set" {
			o.Val = int64(len(h) + 1) // unique non-zero value ids
		}
		h = append(h, SeqEvent{K: "op", Op: &o})
	}
	app := func() { h = append(h, SeqEvent{K: "applier", Pick: 0}) }
	pol := func() { h = append(h, SeqEvent{K: "policy", Pick: 0}) }
	for i, c := range cf.Costs {
		op(Op{K: "set", Key: i + 1, Cost: c})
		app()
	}
	for i, f := range cf.Freq {
		for k := 0; k < f; k++ {
			op(Op{K: "get", Key: i + 1})
			pol()
		}
	}
	inKey := cf.InKey
	if inKey == 0 {
		inKey = 9
	}
	for k := 0; k < cf.InFreq; k++ {
		op(Op{K: "get", Key: inKey})
		pol()
	}
	if cf.InKey == 0 {
		// the incoming key is already accounted: a first new item for it is applied (it may be
		// admitted or rejected), then a second new item arrives
		op(Op{K: "set", Key: 9, Cost: 1})
		op(Op{K: "set", Key: 9, Cost: cf.InCost})
		app()
		app()
		return h
	}
	op(Op{K: "set", Key: inKey, Cost: cf.InCost})
	app()
	if cf.Sequel {
		op(Op{K: "del", Key: cf.SeqDel})
		app()
		for k := 0; k < cf.SeqFreq; k++ {
			op(Op{K: "get", Key: 8})
			pol()
		}
		op(Op{K: "set", Key: 8, Cost: cf.SeqCost})
		app()
	}
	return h
}

func c09AgedHistory(cf *c09Config) []SeqEvent {
	var h []SeqEvent
	op := func(o Op) {
		if o.K == "set" {
			o.Val = int64(len(h) + 1)
		}
		h = append(h, SeqEvent{K: "op", Op: &o})
	}
	app := func() { h = append(h, SeqEvent{K: "applier", Pick: 0}) }
	pol := func() { h = append(h, SeqEvent{K: "policy", Pick: 0}) }
	for i, c := range cf.Costs {
		op(Op{K: "set", Key: i + 1, Cost: c})
		app()
	}
	for i, f := range cf.Freq {
		for k := 0; k < f; k++ {
			op(Op{K: "get", Key: i + 1})
			pol()
		}
	}
	for k := 0; k < cf.InFreq; k++ {
		op(Op{K: "get", Key: 9})
		pol()
	}
	op(Op{K: "set", Key: 9, Cost: cf.InCost}) // first offer
	app()
	for k := 0; k < cf.AgeGets; k++ {
		op(Op{K: "get", Key: k%len(cf.Costs) + 1})
		pol()
	}
	for k := 0; k < cf.SeqFreq; k++ {
		op(Op{K: "get", Key: 9})
		pol()
	}
	op(Op{K: "set", Key: 9, Cost: cf.InCost}) // second offer: judged
	app()
	return h
}

func c09PoisonHistory(cf *c09Config) []SeqEvent {
	var h []SeqEvent
	op := func(o Op) {
		if o.K == "set" {
			o.Val = int64(len(h) + 1)
		}
		h = append(h, SeqEvent{K: "op", Op: &o})
	}
	app := func() { h = append(h, SeqEvent{K: "applier", Pick: 0}) }
	pol := func() { h = append(h, SeqEvent{K: "policy", Pick: 0}) }
	n := int(cf.MaxCost)
	for i := 1; i <= n; i++ {
		op(Op{K: "set", Key: i, Cost: 1})
		app()
	}
	for i := 1; i <= n; i++ {
		for k := 0; k < cf.HotGets; k++ {
			op(Op{K: "get", Key: i})
			pol()
		}
	}
	op(Op{K: "set", Key: 9, Cost: 1}) // first newcomer, never accessed
	app()
	for i := 1; i <= n; i++ {
		op(Op{K: "del", Key: i})
		app()
	}
	// (the first newcomer may have been admitted when HotGets is 0: delete it as well)
	op(Op{K: "del", Key: 9})
	app()
	for i := 1; i <= n; i++ {
		op(Op{K: "set", Key: 10 + i, Cost: 1})
		app()
	}
	for k := 0; k < cf.InFreq; k++ {
		op(Op{K: "get", Key: 8})
		pol()
	}
	op(Op{K: "set", Key: 8, Cost: cf.InCost})
	app()
	return h
}

// c09Judge checks the last applier step of run against the discipline.
func c09Judge(r *SeqRun) []Viol {
	n := len(r.Hist)
	if n == 0 || r.Hist[n-1].K != "applier" {
		return nil
	}
	evs := r.Events[r.EvStart[n-1]:]
	var incoming int64 = -1
	est := map[int64]int64{}
	var estIn int64
	var victims []int64 // key hashes in eviction order
	rejected, admitted := false, false
	var admittedCost int64
	// what the deciding step did, in order: "fill" (one range statement over the accounting map,
	// with the keys it handed to the loop body) and "evict" (a non-zero OnEvict)
	type c09Act struct {
		fill   bool
		keys   []int64
		victim int64
		dup    bool // the benign duplicate pick (zero-value OnEvict): one loop round, nothing removed
	}
	var acts []c09Act
	for _, e := range evs {
		switch e.Kind {
		case evMapYield:
			if e.A == -1 && e.C == 0 {
				acts = append(acts, c09Act{fill: true})
			} else if n := len(acts); n > 0 && acts[n-1].fill {
				acts[n-1].keys = append(acts[n-1].keys, e.A)
			}
		case evEst:
			if e.C == 1 {
				incoming, estIn = e.A, e.B
			} else {
				est[e.A] = e.B
			}
		case evOnEvict:
			// A zero value marks the benign duplicate pick: the sample can hold a key twice, and a
			// copy of an already evicted key (whose estimate was the minimum) may be picked again;
			// nothing is removed for it and OnEvict gets the zero value. Not judged.
			if e.B != 0 {
				victims = append(victims, e.A)
				acts = append(acts, c09Act{victim: e.A})
			} else {
				acts = append(acts, c09Act{dup: true})
			}
		case evOnReject:
			rejected = true
		case evCost:
			if e.A == incoming && e.B == -1 {
				admitted, admittedCost = true, e.C
			}
		}
	}
	if incoming < 0 {
		return nil // the step did not consume a new item
	}
	var out []Viol
	pre := r.Pre
	cost := int64(-1)
	for _, it := range pre.SetBufItems {
		if int64(it.Key) == incoming && it.Flag == 0 {
			cost = it.Cost
			break
		}
	}
	if cost < 0 {
		return nil
	}
	_, already := est[incoming]
	room := pre.MaxCost - pre.Used
	residents := map[int64]bool{}
	for _, c := range pre.Costs {
		residents[int64(c.Key)] = true
	}
	desc := fmt.Sprintf("incoming key %d cost %d estimate %d; residents (key:cost:estimate) %s; room %d of %d", incoming, cost, estIn, fmtResidents(pre, est), room, pre.MaxCost)
	if admitted == rejected {
		out = append(out, Viol{Key: "C09/neither-or-both-admitted-and-rejected", What: fmt.Sprintf("admitted=%v rejected(OnReject)=%v: %s", admitted, rejected, desc)})
		return out
	}
	_ = admittedCost
	switch {
	case cost > pre.MaxCost:
		if !rejected || len(victims) > 0 {
			out = append(out, Viol{Key: "C09/larger-than-cache-not-cleanly-rejected", What: desc})
		}
		return out
	case already:
		if !rejected || len(victims) > 0 {
			out = append(out, Viol{Key: "C09/already-accounted-key-not-cleanly-rejected", What: desc})
		}
		return out
	case room >= cost:
		if !admitted || len(victims) > 0 {
			out = append(out, Viol{Key: "C09/fitting-item-not-admitted-without-eviction", What: fmt.Sprintf("victims=%v admitted=%v: %s", victims, admitted, desc)})
		}
		return out
	}
	// room must be made: replay the victims in order
	remaining := map[int64]bool{}
	for k := range residents {
		remaining[k] = true
	}
	minOf := func() (int64, int) {
		m := int64(1 << 62)
		for k := range remaining {
			if est[k] < m {
				m = est[k]
			}
		}
		cnt := 0
		for k := range remaining {
			if est[k] >= m {
				cnt++
			}
		}
		return m, cnt
	}
	// The candidates actually sampled: every range statement over the accounting map is logged
	// with the keys it handed to the loop body (fillSample stops the loop when the sample is
	// full), so the sample is reconstructed as a SET: sampled keys minus victims so far. Without
	// such a log (a change may sample differently) the weaker "some sample of 5" reading is used
	// for populations above 5.
	// (OnEvict fires only after the policy has returned, so the log holds all range statements
	// first and the victims afterwards: the i-th range statement precedes the i-th victim's choice;
	// a rejection follows one more range statement. Any other shape: not exact.)
	var fills, evicts []c09Act
	for _, a := range acts {
		if a.fill {
			fills = append(fills, a)
		} else {
			evicts = append(evicts, a)
		}
	}
	exact := len(fills) > 0 && (len(fills) == len(evicts) || (rejected && len(fills) == len(evicts)+1))
	acts = acts[:0]
	if exact {
		for i := range fills {
			acts = append(acts, fills[i])
			if i < len(evicts) {
				acts = append(acts, evicts[i])
			}
		}
	} else {
		acts = append(acts, evicts...)
	}
	sample := map[int64]bool{}
	sampleMin := func() int64 {
		m := int64(1 << 62)
		for k := range sample {
			if est[k] < m {
				m = est[k]
			}
		}
		return m
	}
	for _, a := range acts {
		if a.fill {
			for _, k := range a.keys {
				if remaining[k] {
					sample[k] = true
				}
			}
			continue
		}
		if a.dup {
			continue
		}
		v := a.victim
		if !remaining[v] {
			out = append(out, Viol{Key: "C09/victim-not-resident", What: fmt.Sprintf("victim key %d is not an accounted resident: %s", v, desc)})
			continue
		}
		if est[v] > estIn {
			out = append(out, Viol{Key: "C09/victim-more-frequent-than-newcomer", What: fmt.Sprintf("victim key %d has estimate %d > newcomer's %d: %s", v, est[v], estIn, desc)})
		}
		switch {
		case exact:
			if !sample[v] {
				out = append(out, Viol{Key: "C09/victim-was-not-sampled", What: fmt.Sprintf("victim key %d is not among the sampled candidates %v: %s", v, keysOf(sample), desc)})
			} else if m := sampleMin(); est[v] != m {
				out = append(out, Viol{Key: "C09/victim-not-least-frequent-of-sample", What: fmt.Sprintf("victim key %d has estimate %d but the sampled candidate set %v holds one with %d: %s", v, est[v], keysOf(sample), m, desc)})
			}
		case len(remaining) <= 5:
			if m, _ := minOf(); est[v] != m {
				out = append(out, Viol{Key: "C09/victim-not-least-frequent-of-sample", What: fmt.Sprintf("victim key %d has estimate %d but a sampled candidate has %d (all %d residents are in the sample): %s", v, est[v], m, len(remaining), desc)})
			}
		default:
			// larger populations: the victim must be the minimum of SOME sample of 5
			ge := 0
			for k := range remaining {
				if k != v && est[k] >= est[v] {
					ge++
				}
			}
			if ge < 4 {
				out = append(out, Viol{Key: "C09/victim-not-least-frequent-of-any-sample", What: fmt.Sprintf("victim key %d (estimate %d) cannot be the minimum of any sample of 5: %s", v, est[v], desc)})
			}
		}
		delete(remaining, v)
		delete(sample, v)
	}
	if rejected {
		// turned away only if strictly less frequent than the least-frequent candidate
		switch {
		case exact:
			if m := sampleMin(); len(sample) > 0 && !(estIn < m) {
				out = append(out, Viol{Key: "C09/rejected-although-not-less-frequent", What: fmt.Sprintf("rejected with estimate %d although the least-frequent sampled candidate of %v has %d (victims so far %v): %s", estIn, keysOf(sample), m, victims, desc)})
			}
		case len(remaining) <= 5:
			if m, _ := minOf(); !(estIn < m) {
				out = append(out, Viol{Key: "C09/rejected-although-not-less-frequent", What: fmt.Sprintf("rejected with estimate %d although the least-frequent remaining candidate has %d (victims so far %v): %s", estIn, m, victims, desc)})
			}
		default:
			gt := 0
			for k := range remaining {
				if est[k] > estIn {
					gt++
				}
			}
			if gt < 5 {
				out = append(out, Viol{Key: "C09/rejected-although-not-less-frequent", What: fmt.Sprintf("rejected with estimate %d but fewer than 5 remaining residents are more frequent: %s", estIn, desc)})
			}
		}
	} else {
		// admitted after evictions: room must now suffice and no more victims than needed
		var freed int64
		for _, v := range victims {
			for _, c := range pre.Costs {
				if int64(c.Key) == v {
					freed += c.Cost
				}
			}
		}
		if room+freed < cost {
			out = append(out, Viol{Key: "C09/admitted-without-room", What: fmt.Sprintf("admitted after freeing %d: %s", freed, desc)})
		}
		if len(victims) > 0 {
			last := victims[len(victims)-1]
			var lastCost int64
			for _, c := range pre.Costs {
				if int64(c.Key) == last {
					lastCost = c.Cost
				}
			}
			if room+freed-lastCost >= cost {
				out = append(out, Viol{Key: "C09/evicted-more-than-needed", What: fmt.Sprintf("the last victim %d was not needed to make room: %s", last, desc)})
			}
		}
	}
	return out
}

func keysOf(m map[int64]bool) []int64 {
	var out []int64
	for k := range m {
		out = append(out, k)
	}
	sort.Slice(out, func(i, j int) bool { return out[i] < out[j] })
	return out
}

func fmtResidents(d *SDump, est map[int64]int64) string {
	var p []string
	for _, c := range d.Costs {
		p = append(p, fmt.Sprintf("%d:%d:%d", c.Key, c.Cost, est[int64(c.Key)]))
	}
	sort.Strings(p)
	return fmt.Sprint(p)
}

func c09Spec(cf *c09Config) *SeqSpec {
	nc := int64(32)
	if cf.Aged {
		nc = 8
	}
	return &SeqSpec{Cfg: Cfg{NumCounters: nc, MaxCost: cf.MaxCost, BufferItems: 1, SetBuf: 8, MapOrder: cf.MapOrder}, LogEstimates: true,
		Alphabet: func(*SeqRun) []Op { return nil }, Oracle: c09Judge}
}

// c09Run executes one configuration for every order of the sampling map.
func c09Run(cf *c09Config, res *JobResult, seenViol map[string]bool) {
	spec := c09Spec(cf)
	base := c09History(cf)
	var rec func(h []SeqEvent)
	rec = func(h []SeqEvent) {
		run := runHistory(spec, h)
		res.Execs++
		if run.NeedChoice > 0 {
			// the unresolved choice belongs to the last event executed: that is the event at
			// index len(run.Status)-1
			idx := len(run.Status) - 1
			for a := 0; a < run.NeedChoice; a++ {
				h2 := append([]SeqEvent(nil), h...)
				e := h2[idx]
				e.Choices = append(append([]int(nil), e.Choices...), a)
				h2[idx] = e
				rec(h2)
			}
			return
		}
		res.Points++
		var viols []Viol
		switch run.Outcome {
		case vsched.Done:
			// every applier step of the history that consumed a new item is judged: replaying
			// prefixes is unnecessary because the log of each step is self-contained except for
			// Pre, so only the last one is judged here and the residents' own admissions (which
			// always fit) are judged when they are last in c09Prefixes
			viols = c09Judge(run)
		case vsched.Panicked:
			viols = []Viol{{Key: "C09/panic:" + panicKey(run.Detail), What: firstLine(run.Detail)}}
		case vsched.Deadlock:
			viols = []Viol{{Key: "C09/deadlock", What: run.Detail}}
		default:
			res.Err = run.Outcome.String() + " " + run.Detail
			return
		}
		label := "admitted"
		for _, e := range run.Events[run.EvStart[len(h)-1]:] {
			if e.Kind == evOnReject {
				label = "rejected"
			}
		}
		nv := 0
		for _, e := range run.Events[run.EvStart[len(h)-1]:] {
			if e.Kind == evOnEvict && e.B != 0 {
				nv++
			}
		}
		label = fmt.Sprintf("%s victims=%d", label, nv)
		if len(viols) > 0 {
			label = "VIOLATION " + viols[0].Key
			res.ViolCount += int64(len(viols))
			for _, v := range viols {
				if !seenViol[v.Key] {
					seenViol[v.Key] = true
					b, _ := json.Marshal(cf)
					v.What += "   configuration: " + string(b)
					res.Viols = append(res.Viols, ViolReport{Viol: v, SeqHist: h, SeqCfg: &spec.Cfg, SeqName: "c09:" + string(b), Stable: true, Events: fmtEvents(run.Events)})
				}
			}
		}
		res.Outcomes[label]++
	}
	rec(base)
}

func c09Custom(j *Job) *JobResult {
	var batch []c09Config
	if err := json.Unmarshal([]byte(j.Aux), &batch); err != nil {
		return &JobResult{Name: "c09", Err: err.Error()}
	}
	res := &JobResult{Name: fmt.Sprintf("enum/max%d/%dresidents/batch", batch[0].MaxCost, len(batch[0].Costs)), Outcomes: map[string]int64{}, Complete: true}
	seen := map[string]bool{}
	start := time.Now()
	for i := range batch {
		if j.Seconds > 0 && time.Since(start).Seconds() > j.Seconds {
			// a loaded machine: stop inside the budget (exhaustive=false) instead of being killed by the watchdog
			res.Complete = false
			res.CapHit = fmt.Sprintf("deadline after %d of %d configurations of the batch", i, len(batch))
			break
		}
		c09Run(&batch[i], res, seen)
		if res.Err != "" {
			return res
		}
		if vsched.Stuck {
			break
		}
	}
	res.States = res.Points
	b, _ := json.Marshal(batch[len(batch)/2])
	res.Sample = []string{string(b), histString(c09History(&batch[len(batch)/2]))}
	return res
}

func c09Jobs(tier string) []Job {
	var all []c09Config
	maxRes := 4
	maxFreq := 2
	if tier == "thorough" {
		maxRes, maxFreq = 5, 3
	}
	quick := tier != "thorough"
	for _, maxCost := range []int64{3, 5} {
		for n := 1; n <= maxRes; n++ {
			order := "perm"
			if n >= 5 {
				order = "rot"
			}
			maxFreq := maxFreq
			if quick && n >= 4 {
				maxFreq = 1 // quick: 4 residents with all 24 map orders but Get counts 0-1 only
			}
			// cost assignments in {1,2}^n that fit
			for cm := 0; cm < 1<<n; cm++ {
				costs := make([]int64, n)
				var sum int64
				for i := range costs {
					costs[i] = 1 + int64((cm>>i)&1)
					sum += costs[i]
				}
				if sum > maxCost {
					continue
				}
				// frequency assignments in {0..maxFreq}^n
				total := 1
				for i := 0; i < n; i++ {
					total *= maxFreq + 1
				}
				for fm := 0; fm < total; fm++ {
					freq := make([]int, n)
					x := fm
					for i := range freq {
						freq[i] = x % (maxFreq + 1)
						x /= maxFreq + 1
					}
					for _, inKey := range []int{9, 0} {
						for _, inCost := range []int64{1, 2, 3, maxCost + 1} {
							if inKey == 0 && inCost != 1 {
								continue
							}
							for inFreq := 0; inFreq <= maxFreq+1; inFreq++ {
								if inKey == 0 && inFreq > 1 {
									continue
								}
								all = append(all, c09Config{MaxCost: maxCost, Costs: costs, Freq: freq, InKey: inKey, InCost: inCost, InFreq: inFreq, MapOrder: order})
							}
						}
					}
				}
			}
		}
	}
	// populations LARGER than the eviction sample (6 and 7 unit-cost residents, MaxCost 7): the
	// sample of 5 is a proper subset chosen by the map order; the oracle reconstructs it from the
	// logged range statements, so "least frequent of the candidates sampled" is judged exactly
	for _, n := range []int{6, 7} {
		mf := 1
		if !quick && n == 6 {
			mf = 2
		}
		costs := make([]int64, n)
		for i := range costs {
			costs[i] = 1
		}
		total := 1
		for i := 0; i < n; i++ {
			total *= mf + 1
		}
		for fm := 0; fm < total; fm++ {
			freq := make([]int, n)
			x := fm
			for i := range freq {
				freq[i] = x % (mf + 1)
				x /= mf + 1
			}
			for _, inCost := range []int64{1, 2, 3} {
				for inFreq := 0; inFreq <= mf+1; inFreq++ {
					all = append(all, c09Config{MaxCost: 7, Costs: costs, Freq: freq, InKey: 9, InCost: inCost, InFreq: inFreq, MapOrder: "rot"})
				}
			}
		}
	}
	// sequels: a second admission attempt after a resident was deleted (full populations only,
	// where the first newcomer can be rejected)
	var seq []c09Config
	for _, cf := range all {
		var sum int64
		for _, c := range cf.Costs {
			sum += c
		}
		if cf.InKey != 9 || sum != cf.MaxCost || cf.InCost > cf.MaxCost || len(cf.Costs) > 3 || cf.InFreq > 1 || cf.MaxCost > 5 {
			continue
		}
		for d := 1; d <= len(cf.Costs); d++ {
			for _, sc := range []int64{1, 2} {
				for sf := 0; sf <= 2; sf += 2 {
					c2 := cf
					c2.Sequel, c2.SeqDel, c2.SeqCost, c2.SeqFreq = true, d, sc, sf
					seq = append(seq, c2)
				}
			}
		}
	}
	all = append(all, seq...)
	for _, mc := range []int64{5, 6} {
		for hot := 0; hot <= 3; hot++ {
			for inF := 0; inF <= 3; inF++ {
				for _, inC := range []int64{1, 2} {
					all = append(all, c09Config{Poison: true, HotGets: hot, MaxCost: mc, InKey: 8, InCost: inC, InFreq: inF, MapOrder: "rot"})
				}
			}
		}
	}
	// aged: two offers of the same newcomer with an aging reset of the TinyLFU in between
	{
		maxF := 2
		if !quick {
			maxF = 3
		}
		costs := []int64{1, 1, 1}
		for fm := 0; fm < (maxF+1)*(maxF+1)*(maxF+1); fm++ {
			freq := []int{fm % (maxF + 1), fm / (maxF + 1) % (maxF + 1), fm / (maxF + 1) / (maxF + 1)}
			for inF := 0; inF <= 1; inF++ {
				for age := 0; age <= 8; age += 1 {
					for sf := 0; sf <= 2; sf++ {
						all = append(all, c09Config{Aged: true, AgeGets: age, MaxCost: 3, Costs: costs, Freq: freq, InKey: 9, InCost: 1, InFreq: inF, SeqFreq: sf, MapOrder: "rot"})
					}
				}
			}
		}
	}
	// batches of configurations per job
	var jobs []Job
	per := 200
	for i := 0; i < len(all); i += per {
		end := min(i+per, len(all))
		b, _ := json.Marshal(all[i:end])
		jobs = append(jobs, Job{Mode: "c09", Aux: string(b), Bound: -1})
	}
	return jobs
}

func init() {
	registerProp(&Prop{ID: "C09", Level: "model_checking",
		Rule: "exhaustive enumeration of (resident population of 1-4 (thorough: 5) keys x costs in {1,2} that fit x Get counts 0-2 (thorough: 0-3) per resident x incoming new key or already-accounted key x incoming cost in {1,2,3,MaxCost+1} x incoming Get count x MaxCost in {3,5}) + populations of 6 and 7 unit-cost residents with MaxCost 7 (larger than the eviction sample of 5; Get counts 0-1, thorough 0-2 for 6 residents) + an aged family (NumCounters 8: the same newcomer offered twice with 0-8 Gets on the residents, hence an aging reset, in between) " +
			"x every permutation (n<=4) / rotation (n=5) of the sampling map's iteration order; each configuration is built on the real cache through the public API under the sequential driver (real Gets and policy-goroutine steps drive the TinyLFU counters) and the applier step deciding the incoming item is judged with the estimates read white-box immediately before it: " +
			"fits => admitted, no victims; otherwise every victim is a minimum-estimate candidate with estimate <= the newcomer's and no victim is evicted needlessly; rejected only if larger than the cache, already accounted, or strictly less frequent than the least-frequent remaining candidate, and then OnReject fires",
		Assume: []string{"the candidates sampled are reconstructed (as a set) from the logged range statements over the accounting map: keys handed to the loop body minus victims so far; for populations <= 5 this is every resident", "distinct = (admitted|rejected, number of victims) labels; states = configurations x map orders judged"},
		Jobs:   c09Jobs,
		Custom: func(j *Job) *JobResult { return c09Custom(j) },
		SeqByName: func(name string) *SeqSpec {
			var cf c09Config
			if len(name) > 4 && name[:4] == "c09:" && json.Unmarshal([]byte(name[4:]), &cf) == nil {
				return c09Spec(&cf)
			}
			return nil
		},
		Oracle: func(x *Exec, res *vsched.Result, job *Job) []Viol { return nil },
	})
}
