package main

import (
	"encoding/binary"
	"encoding/json"
	"fmt"
	"os"
	"time"

	"github.com/dgraph-io/ristretto/v2/z"

	"verif/internal/ev"
)

// C19 — z.Bloom: no false negatives, AddIfNotHas contract, Clear empties, faithful JSON round trip.
//
// Explicit-state BFS on the REAL filter. For every parameterisation (entries x locations and
// entries x false-positive rate, both through z.NewBloomFilter(float64, float64)) the hash
// alphabet is {high part in {0,1,all-ones,mid}} x {low part in {0,1,all-ones,mid}} where the
// parts are the ones the filter itself derives from a hash (h = hash >> shift, l = hash << shift
// >> shift; shift read white-box), i.e. 16 hashes. Events, simplest first: Add(h) x16,
// AddIfNotHas(h) x16, Clear, JSON round trip (JSONMarshal, JSONUnmarshal, continue with the
// unmarshalled filter). A state is (all private parameters, bitset, model set S of hashes that
// must be present); successors are computed on an exact deep copy of the live filter
// (export/z/bloom.go). Every violation is re-executed from a fresh filter before it is reported.
//
// Oracle (nothing beyond the property statement):
//   - every hash in S is reported by Has (until Clear);
//   - AddIfNotHas(h) returns true exactly when Has(h) was false immediately before, and h joins S;
//   - after Clear the bitset is all zero and Has is false for all 16 hashes (only if the filter
//     probes at least one location; with zero locations Has is vacuously true), S becomes empty;
//   - the unmarshalled filter answers Has like the original for all 16 hashes; a difference in
//     bitset / parameters is reported only together with a concrete witness hash for which
//     the two filters answer Has differently (for a bitset difference at bit p the witness is the
//     hash whose high part is p and whose low part is 0);
//   - no call panics.
func init() { register("C19", "model_checking", c19) }

const (
	c19Add = iota
	c19AddIfNotHas
	c19Clear
	c19JSON
)

var c19OpNames = []string{"add", "addifnothas", "clear", "json"}

type c19Ev struct {
	op  uint8
	idx uint8 // index into the hash alphabet (add / addifnothas)
}

type c19Event struct {
	Op   string `json:"op"`
	Hash uint64 `json:"hash"`
}

type c19Case struct {
	Entries float64    `json:"entries"`
	Second  float64    `json:"locations_or_rate"`
	Events  []c19Event `json:"events"`
}

type c19Viol struct{ key, what string }

func c19Try(f func()) (p any) {
	defer func() { p = recover() }()
	f()
	return nil
}

// c19Alphabet derives the 16 hashes from the filter's own split of a hash.
func c19Alphabet(b *z.Bloom) (hs [16]uint64) {
	_, sizeExp, size, _, shift := z.VerifBloom(b)
	_ = sizeExp
	midHi := uint64(0x5A5A5A5A5A5A5A5A) & size
	midLo := uint64(0xA5A5A5A5A5A5A5A5) & size
	his := [4]uint64{0, 1, size, midHi}
	los := [4]uint64{0, 1, size, midLo}
	for i, h := range his {
		for j, l := range los {
			hs[i*4+j] = h<<shift | l
		}
	}
	return hs
}

func c19HasAll(b *z.Bloom, hs *[16]uint64) (m uint16, p any) {
	p = c19Try(func() {
		for i, h := range hs {
			if b.Has(h) {
				m |= 1 << uint(i)
			}
		}
	})
	return m, p
}

func c19Params(b *z.Bloom) [4]uint64 {
	_, sizeExp, size, setLocs, shift := z.VerifBloom(b)
	return [4]uint64{sizeExp, size, setLocs, shift}
}

func c19Bits(b *z.Bloom) []uint64 {
	bits, _, _, _, _ := z.VerifBloom(b)
	return bits
}

// c19Key: every private parameter + the non-zero words of the bitset + the model set.
func c19Key(buf []byte, b *z.Bloom, S uint16) []byte {
	buf = buf[:0]
	p := c19Params(b)
	for _, v := range p {
		buf = binary.LittleEndian.AppendUint64(buf, v)
	}
	bits := c19Bits(b)
	buf = binary.LittleEndian.AppendUint32(buf, uint32(len(bits)))
	for i, w := range bits {
		if w != 0 {
			buf = binary.LittleEndian.AppendUint32(buf, uint32(i))
			buf = binary.LittleEndian.AppendUint64(buf, w)
		}
	}
	buf = binary.LittleEndian.AppendUint16(buf, S)
	buf = z.VerifBloomExtra(buf, b) // private state the filter may have gained (empty on the known layout)
	// ElemNum is a public counter the current code never reads, but code MAY branch on it (a
	// seeded "Clear does nothing when ElemNum == 0" change was hidden by leaving it out of the
	// key: a filter restored from JSON has ElemNum 0 with a populated bitset). Keeping the exact
	// value would make every Add a new state; the classes {0, 1..setLocs, more} separate "never
	// added to", "one Add" and "several Adds".
	cls := uint8(2)
	switch {
	case b.ElemNum == 0:
		cls = 0
	case b.ElemNum <= p[2]: // at most one Add (setLocs increments)
		cls = 1
	}
	buf = append(buf, cls)
	return buf
}

func c19SetString(S uint16, hs *[16]uint64) string {
	s := "{"
	for i := 0; i < 16; i++ {
		if S&(1<<uint(i)) != 0 {
			if len(s) > 1 {
				s += ","
			}
			s += fmt.Sprintf("%#x", hs[i])
		}
	}
	return s + "}"
}

// c19Step applies one event to *pb (a JSON round trip replaces the filter by the unmarshalled
// one), updates the model set and returns the first violation of the oracle, if any. obs is a
// non-alarming observation (parameter change without a Has witness).
func c19Step(pb **z.Bloom, hs *[16]uint64, S uint16, e c19Ev) (S2 uint16, v *c19Viol, obs string) {
	b := *pb
	pre, p := c19HasAll(b, hs)
	if p != nil {
		return S, &c19Viol{"C19/has-panics", fmt.Sprintf("Has panicked: %v", p)}, ""
	}
	setLocs := c19Params(b)[2]
	h := hs[e.idx]
	switch e.op {
	case c19Add:
		if p := c19Try(func() { b.Add(h) }); p != nil {
			return S, &c19Viol{"C19/add-panics", fmt.Sprintf("Add(%#x) panicked: %v", h, p)}, ""
		}
		S |= 1 << e.idx
	case c19AddIfNotHas:
		var ret bool
		if p := c19Try(func() { ret = b.AddIfNotHas(h) }); p != nil {
			return S, &c19Viol{"C19/addifnothas-panics", fmt.Sprintf("AddIfNotHas(%#x) panicked: %v", h, p)}, ""
		}
		hadBefore := pre&(1<<e.idx) != 0
		if ret != !hadBefore {
			return S, &c19Viol{"C19/addifnothas-wrong-return", fmt.Sprintf("AddIfNotHas(%#x) returned %v although Has(%#x) was %v immediately before", h, ret, h, hadBefore)}, ""
		}
		S |= 1 << e.idx
	case c19Clear:
		if p := c19Try(func() { b.Clear() }); p != nil {
			return S, &c19Viol{"C19/clear-panics", fmt.Sprintf("Clear panicked: %v", p)}, ""
		}
		for i, w := range c19Bits(b) {
			if w != 0 {
				return S, &c19Viol{"C19/clear-leaves-bits", fmt.Sprintf("after Clear bitset word %d is %#x", i, w)}, ""
			}
		}
		S = 0
	case c19JSON:
		// (a filter with 0 hash locations cannot be built from the (entries, locations) or
		// (entries, rate < 1) parameterisations on the unchanged tree; if a change makes one
		// reachable, the round trip is judged like any other)
		_ = setLocs
		var nb *z.Bloom
		var err error
		if p := c19Try(func() { nb, err = z.JSONUnmarshal(b.JSONMarshal()) }); p != nil {
			return S, &c19Viol{"C19/json-roundtrip-panics", fmt.Sprintf("JSONMarshal/JSONUnmarshal panicked: %v", p)}, ""
		}
		if err != nil || nb == nil {
			return S, &c19Viol{"C19/json-roundtrip-error", fmt.Sprintf("JSONUnmarshal(JSONMarshal()) failed: %v", err)}, ""
		}
		post, p := c19HasAll(nb, hs)
		if p != nil {
			return S, &c19Viol{"C19/has-panics", fmt.Sprintf("Has on the unmarshalled filter panicked: %v", p)}, ""
		}
		if post != pre {
			d := post ^ pre
			i := 0
			for d&1 == 0 {
				d >>= 1
				i++
			}
			return S, &c19Viol{"C19/json-roundtrip-has-differs", fmt.Sprintf("after the JSON round trip Has(%#x) is %v, before it was %v", hs[i], post&(1<<uint(i)) != 0, pre&(1<<uint(i)) != 0)}, ""
		}
		pa, pb2 := c19Params(b), c19Params(nb)
		ba, bb := c19Bits(b), c19Bits(nb)
		differ := func(w uint64) (bool, bool, bool) {
			var x, y bool
			p := c19Try(func() { x = b.Has(w); y = nb.Has(w) })
			return x, y, p == nil && x != y
		}
		if pa == pb2 {
			for i := range ba {
				if i < len(bb) && ba[i] != bb[i] {
					d := ba[i] ^ bb[i]
					bit := uint64(0)
					for d&1 == 0 {
						d >>= 1
						bit++
					}
					w := (uint64(i)*64 + bit) << pa[3]
					if x, y, ok := differ(w); ok {
						return S, &c19Viol{"C19/json-roundtrip-bitset-differs", fmt.Sprintf("after the JSON round trip bitset word %d is %#x, before %#x; witness: Has(%#x) is %v on the unmarshalled filter, %v on the original", i, bb[i], ba[i], w, y, x)}, ""
					}
					obs = "json round trip changed the bitset; no Has witness found"
				}
			}
			if len(ba) != len(bb) {
				obs = "json round trip changed the bitset length with equal parameters"
			}
		} else {
			// Different private parameters: alarm only with a concrete witness hash.
			var cands []uint64
			for i, w := range ba {
				for bit := uint64(0); w != 0 && bit < 64; bit++ {
					if w&(1<<bit) != 0 {
						cands = append(cands, (uint64(i)*64+bit)<<pa[3], (uint64(i)*64+bit)<<pb2[3])
					}
				}
				if len(cands) > 512 {
					break
				}
			}
			for i := uint(0); i < 64; i++ {
				cands = append(cands, 1<<i, ^(uint64(1) << i))
			}
			for _, w := range cands {
				if x, y, ok := differ(w); ok {
					return S, &c19Viol{"C19/json-roundtrip-params-differ", fmt.Sprintf("JSON round trip changed (sizeExp,size,locations,shift) from %v to %v; witness: Has(%#x) is %v on the unmarshalled filter, %v on the original", pa, pb2, w, y, x)}, ""
				}
			}
			obs = fmt.Sprintf("json round trip changed parameters %v -> %v; no Has witness found", pa, pb2)
		}
		*pb = nb
		b = nb
	}
	post, p := c19HasAll(b, hs)
	if p != nil {
		return S, &c19Viol{"C19/has-panics", fmt.Sprintf("Has panicked: %v", p)}, ""
	}
	if e.op == c19Clear && setLocs > 0 && post != 0 {
		return S, &c19Viol{"C19/clear-leaves-has-true", fmt.Sprintf("after Clear Has is still true for %s", c19SetString(post, hs))}, ""
	}
	if miss := S &^ post; miss != 0 {
		return S, &c19Viol{"C19/false-negative-after-" + c19OpNames[e.op], fmt.Sprintf("after %s Has is false for added hash(es) %s", c19OpNames[e.op], c19SetString(miss, hs))}, ""
	}
	return S, nil, obs
}

func c19NewFilter(entries, second float64) (b *z.Bloom, p any) {
	p = c19Try(func() { b = z.NewBloomFilter(entries, second) })
	return b, p
}

func c19MakeCase(entries, second float64, hs *[16]uint64, hist []c19Ev) c19Case {
	c := c19Case{Entries: entries, Second: second, Events: []c19Event{}}
	for _, e := range hist {
		ce := c19Event{Op: c19OpNames[e.op]}
		if e.op == c19Add || e.op == c19AddIfNotHas {
			ce.Hash = hs[e.idx]
		}
		c.Events = append(c.Events, ce)
	}
	return c
}

func c19CaseString(c c19Case) string {
	s := fmt.Sprintf("NewBloomFilter(%v,%v)", c.Entries, c.Second)
	for _, e := range c.Events {
		switch e.Op {
		case "add":
			s += fmt.Sprintf(" Add(%#x)", e.Hash)
		case "addifnothas":
			s += fmt.Sprintf(" AddIfNotHas(%#x)", e.Hash)
		case "clear":
			s += " Clear"
		case "json":
			s += " JSONroundtrip"
		}
	}
	return s
}

// c19RunCase executes a history on a FRESH filter with the full oracle on every step.
func c19RunCase(c c19Case, verbose bool) (*c19Viol, int) {
	b, p := c19NewFilter(c.Entries, c.Second)
	if p != nil || b == nil {
		return &c19Viol{"C19/constructor-panics", fmt.Sprintf("NewBloomFilter(%v,%v) panicked: %v", c.Entries, c.Second, p)}, -1
	}
	hs := c19Alphabet(b)
	S := uint16(0)
	for i, ce := range c.Events {
		e := c19Ev{}
		found := false
		for k, n := range c19OpNames {
			if n == ce.Op {
				e.op = uint8(k)
				found = true
			}
		}
		if !found {
			ev.Fatalf("C19 replay: unknown op %q", ce.Op)
		}
		if e.op == c19Add || e.op == c19AddIfNotHas {
			found = false
			for k, h := range hs {
				if h == ce.Hash {
					e.idx = uint8(k)
					found = true
					break
				}
			}
			if !found {
				ev.Fatalf("C19 replay: hash %#x is not in the alphabet of this parameterisation", ce.Hash)
			}
		}
		var v *c19Viol
		var obs string
		S, v, obs = c19Step(&b, &hs, S, e)
		if verbose {
			has, _ := c19HasAll(b, &hs)
			fmt.Printf("  step %d %s %#x: model=%s has=%s %s\n", i, ce.Op, ce.Hash, c19SetString(S, &hs), c19SetString(has, &hs), obs)
		}
		if v != nil {
			return v, i
		}
	}
	return nil, -1
}

type c19Config struct {
	Entries    float64 `json:"entries"`
	Second     float64 `json:"locations_or_rate"`
	Kind       string  `json:"kind"`
	SizeBits   uint64  `json:"size_bits"`
	Locations  uint64  `json:"locations"`
	Shift      uint64  `json:"shift"`
	Depth      int     `json:"depth"`
	States     int64   `json:"states"`
	Trans      int64   `json:"transitions"`
	RoundTrips int64   `json:"json_round_trips"`
	FalsePos   int64   `json:"states_with_false_positive_in_alphabet"`
	Violations int64   `json:"violations"`
	Exhaustive bool    `json:"exhaustive"`
}

type c19State struct {
	b    *z.Bloom
	S    uint16
	hist []c19Ev
}

func c19Explore(r *ev.Run, cfg *c19Config, depth int, deadline time.Time, obsSet map[string]int64, total *int64, stride int64) {
	fresh, p := c19NewFilter(cfg.Entries, cfg.Second)
	if p != nil || fresh == nil {
		r.Violation("C19/constructor-panics", fmt.Sprintf("NewBloomFilter(%v,%v) panicked: %v", cfg.Entries, cfg.Second, p), c19Case{Entries: cfg.Entries, Second: cfg.Second, Events: []c19Event{}})
		cfg.Violations++
		return
	}
	hs := c19Alphabet(fresh)
	pr := c19Params(fresh)
	cfg.SizeBits, cfg.Locations, cfg.Shift = pr[1]+1, pr[2], pr[3]
	cfg.Depth = depth
	// (no assumption on the layout: a bitset that is larger than the addressed size, or a size
	// below one word, is the filter's own business; the oracle is behavioural)
	var events []c19Ev
	for i := 0; i < 16; i++ {
		events = append(events, c19Ev{c19Add, uint8(i)})
	}
	for i := 0; i < 16; i++ {
		events = append(events, c19Ev{c19AddIfNotHas, uint8(i)})
	}
	events = append(events, c19Ev{c19Clear, 0}, c19Ev{c19JSON, 0})

	seen := map[string]struct{}{}
	var kb []byte
	kb = c19Key(kb, fresh, 0)
	seen[string(kb)] = struct{}{}
	cfg.States = 1
	frontier := []c19State{{fresh, 0, nil}}
	scratch := z.VerifBloomClone(fresh)
	cfg.Exhaustive = true
	for d := 0; d < depth && len(frontier) > 0; d++ {
		var next []c19State
		for si := range frontier {
			st := &frontier[si]
			if si&63 == 0 && time.Now().After(deadline) {
				cfg.Exhaustive = false
				return
			}
			for _, e := range events {
				z.VerifBloomCopyInto(scratch, st.b)
				cur := scratch
				S2, v, obs := c19Step(&cur, &hs, st.S, e)
				cfg.Trans++
				*total++
				if *total%stride == 0 {
					r.Sample(c19MakeCase(cfg.Entries, cfg.Second, &hs, append(append([]c19Ev(nil), st.hist...), e)))
				}
				if e.op == c19JSON {
					cfg.RoundTrips++
				}
				if obs != "" {
					obsSet[obs]++
				}
				if v != nil {
					hist := append(append([]c19Ev(nil), st.hist...), e)
					c := c19MakeCase(cfg.Entries, cfg.Second, &hs, hist)
					v2, at := c19RunCase(c, false)
					if v2 == nil || v2.key != v.key || at != len(hist)-1 {
						ev.Fatalf("C19: violation %s (%s) found on a cloned filter did not reproduce from a fresh filter: %s", v.key, v.what, c19CaseString(c))
					}
					cfg.Violations++
					r.Violation(v.key, v.what+" — history: "+c19CaseString(c), c)
					continue
				}
				kb = c19Key(kb, cur, S2)
				if _, ok := seen[string(kb)]; ok {
					continue
				}
				seen[string(kb)] = struct{}{}
				cfg.States++
				if has, _ := c19HasAll(cur, &hs); has&^S2 != 0 {
					cfg.FalsePos++
				}
				if d+1 < depth {
					hist := append(append(make([]c19Ev, 0, len(st.hist)+1), st.hist...), e)
					next = append(next, c19State{z.VerifBloomClone(cur), S2, hist})
				}
			}
		}
		frontier = next
	}
}

func c19(tier string, r *ev.Run, replay string) {
	if replay != "" {
		b, err := os.ReadFile(replay)
		if err != nil {
			ev.Fatalf("C19 replay: %v", err)
		}
		var f struct {
			Key    string  `json:"key"`
			Replay c19Case `json:"replay"`
		}
		if err := json.Unmarshal(b, &f); err != nil {
			ev.Fatalf("C19 replay: %v", err)
		}
		fmt.Printf("replaying %s\n", c19CaseString(f.Replay))
		v, at := c19RunCase(f.Replay, true)
		if v != nil {
			fmt.Printf("  still fails at step %d: %s\n", at, v.what)
			r.Violation(v.key, v.what+" — history: "+c19CaseString(f.Replay), f.Replay)
		} else {
			fmt.Println("  no violation any more")
		}
		r.Cov["states"], r.Cov["transitions"], r.Cov["traces_validated_against_impl"] = 0, len(f.Replay.Events), 1
		r.Cov["exhaustive"] = false
		r.Cov["replay"] = replay
		return
	}

	entries := []float64{1, 20, 33, 100, 512, 513, 1000, 5000}
	locs := []float64{1, 2, 3, 7}
	rates := []float64{0.5, 0.1, 0.01, 0.0001, 0.75, 0.9, 0.99} // incl. rates close to 1 (a single hash location)
	depth := 5
	budget := 40 * time.Second
	stride := int64(499979)
	if tier == "thorough" {
		depth = 7
		budget = 9 * time.Minute
		stride = 4999963
	}
	deadline := time.Now().Add(budget)
	var cfgs []*c19Config
	for _, e := range entries {
		for _, l := range locs {
			cfgs = append(cfgs, &c19Config{Entries: e, Second: l, Kind: "locations"})
		}
	}
	for _, e := range entries {
		for _, x := range rates {
			cfgs = append(cfgs, &c19Config{Entries: e, Second: x, Kind: "false_positive_rate"})
		}
	}
	obsSet := map[string]int64{}
	var states, trans, rts, total int64
	exhaustive := true
	for _, c := range cfgs {
		c19Explore(r, c, depth, deadline, obsSet, &total, stride)
		states += c.States
		trans += c.Trans
		rts += c.RoundTrips
		if !c.Exhaustive {
			exhaustive = false
		}
	}
	r.Cov["states"] = states
	r.Cov["transitions"] = trans
	r.Cov["traces_validated_against_impl"] = trans
	r.Cov["json_round_trips"] = rts
	r.Cov["depth"] = depth
	r.Cov["hash_alphabet_size"] = 16
	r.Cov["events_per_state"] = 34
	r.Cov["parameterisations"] = len(cfgs)
	r.Cov["configurations"] = cfgs
	r.Cov["exhaustive"] = exhaustive
	r.Cov["observations"] = obsSet
	r.Cov["rule"] = fmt.Sprintf("BFS on the real z.Bloom: for each of %d parameterisations (entries %v x locations %v, entries x rate %v), every sequence up to depth %d over {Add(h), AddIfNotHas(h) for the 16 hashes {high part 0,1,all-ones,mid} x {low part 0,1,all-ones,mid}, Clear, JSON round trip}; state = private parameters + bitset + model set; each transition is one real call sequence on an exact deep copy; traces_validated_against_impl counts transitions (every one runs the real code)", len(cfgs), entries, locs, rates, depth)
	r.Assume = []string{
		"hashes are abstracted to their high and low parts as split by the filter itself; bits between the two parts (when 2*sizeExp < 64) are ignored by the filter and left zero",
		"ElemNum (a public counter the filter never reads) enters the state key only through the classes {0, small, larger}",
		"deep copy of the live filter (export/z/bloom.go) is exact; every violation is additionally reproduced from a fresh filter before it is reported",
	}
}
