package main

import (
	"encoding/binary"
	"encoding/json"
	"fmt"
	"os"
	"runtime"
	"runtime/debug"
	"sync"
	"time"

	ristretto "github.com/dgraph-io/ristretto/v2"

	"verif/internal/ev"
)

// C18 — count-min sketch / TinyLFU estimates never under-count, saturate, age by halving.
//
// (a) Byte space: all 256 byte values x both nibble positions (x 3 neighbour-byte fills) for
//
//	cmRow increment / get / reset / clear.
//
// (b) Explicit-state search TO FIXPOINT on the real cmSketch and the real tinyLFU for
//
//	NumCounters in {2,3,4,5,8,16}, four seed vectors (set white-box), key hashes
//	{0,1,2,mask,2^64-1}; events {Increment(k), forced aging reset, clear}; the tinyLFU's
//	automatic reset happens inside Increment. Counters saturate, so the state space is finite.
//	A search node is (implementation state, model vector n) where the implementation state is
//	the raw rows (+ doorkeeper bitset + incrs for tinyLFU) and n_k = accesses of key k recorded
//	since the last reset / clear, capped at 15 (the oracle reads only min(n_k,15)). The only oracle clause that reads n is the
//	lower bound min(n_k,15) <= estimate(k), which is monotone in n and the evolution of n is
//	monotone too; therefore a node whose n is component-wise <= the n of an already recorded
//	node with the SAME implementation state is subsumed (everything checked from it is checked
//	from the recorded node at least as strictly) and is not expanded. That is the only reduction.
//	Successors are computed by restoring a previously observed state into a live object
//	(rows and doorkeeper words are written through the aliasing slices the export returns,
//	incrs through SetIncrs) and executing the real operation. The shortcut is validated by
//	re-executing the whole history of every 997th node on a fresh object (must reach the same
//	state) and every violation is reproduced from a fresh object before it is reported.
//
// (c) Sizing: for NumCounters 2..1025 and 2^k-1, 2^k, 2^k+1 (k <= 16): row length x 2 == mask+1 ==
//
//	the next power of two >= NumCounters.
//
// Oracle per transition (n_k as above, probes = the alphabet keys plus every hash 0..mask, so
// every counter position of every row is observed):
//   - min(n_k,15) <= estimate(k) for the alphabet keys; estimate <= 16 (tinyLFU), <= 15 (bare
//     sketch) for every probe;
//   - an Increment that does not trigger a reset lowers no probe's estimate;
//   - forced reset: every raw 4-bit counter equals its previous value shifted right by one
//     (neighbours untouched), doorkeeper all zero, incrs 0; n restarts at 0;
//   - automatic reset inside Increment (observed as an empty doorkeeper afterwards): doorkeeper all zero,
//     and the resulting state equals "the same Increment without reset, then a forced reset"
//     executed on a second real object (differential; the forced reset itself is checked exactly);
//     n restarts at 0;
//   - clear: rows, doorkeeper, incrs all zero; every estimate 0; n restarts at 0;
//   - no call panics.
func init() { register("C18", "model_checking", c18) }

const (
	c18Inc = iota
	c18Reset
	c18Clear
	c18Push // tinyLFU only: Push(batch), e.k indexes c18Batches (batches of key indices)
)

var c18OpNames = []string{"increment", "reset", "clear", "push"}

// c18Batches: the Get batches handed to tinyLFU.Push (indices into the key alphabet): a key twice,
// two keys in both orders, a batch of three.
var c18Batches = [][]uint8{{0, 0}, {1, 1}, {0, 1}, {1, 0}, {0, 1, 0}, {2, 3}, {4, 4}}

type c18Ev struct {
	op uint8
	k  uint8 // index into the key alphabet
}

type c18Event struct {
	Op   string   `json:"op"`
	Key  uint64   `json:"key_hash"`
	Keys []uint64 `json:"batch,omitempty"` // push
}

type c18RowCase struct {
	Op    string `json:"op"` // increment | reset | clear
	Byte  byte   `json:"byte"`
	Pos   int    `json:"nibble"`
	Fill  byte   `json:"neighbour_bytes"`
	Count int    `json:"increments,omitempty"`
}

type c18Case struct {
	Part        string      `json:"part"` // row | size | sketch | tinylfu
	NumCounters int64       `json:"num_counters,omitempty"`
	Seeds       [4]uint64   `json:"seeds,omitempty"`
	Events      []c18Event  `json:"events,omitempty"`
	Row         *c18RowCase `json:"row,omitempty"`
}

type c18Viol struct{ key, what string }

func c18Try(f func()) (p any) {
	defer func() { p = recover() }()
	f()
	return nil
}

func c18NextPow2(n int64) int64 {
	p := int64(1)
	for p < n {
		p *= 2
	}
	return p
}

// ---------------------------------------------------------------------------------------------
// (a) byte space

func c18Nib(b byte, pos int) byte {
	if pos == 0 {
		return b & 0x0f
	}
	return b >> 4
}

func c18RowCheck(c c18RowCase) *c18Viol {
	row := []byte{c.Fill, c.Byte, c.Fill}
	n := uint64(2 + c.Pos) // counter index of the middle byte's nibble
	var v *c18Viol
	p := c18Try(func() {
		switch c.Op {
		case "increment":
			cur := c18Nib(c.Byte, c.Pos)
			other := c18Nib(c.Byte, 1-c.Pos)
			if g := ristretto.VerifRowGet(row, n); g != cur {
				v = &c18Viol{"C18/row-get-wrong", fmt.Sprintf("get(nibble %d of byte %#02x) = %d, want %d", c.Pos, c.Byte, g, cur)}
				return
			}
			for i := 1; i <= c.Count; i++ {
				ristretto.VerifRowIncrement(row, n)
				want := cur + 1
				if cur == 15 {
					want = 15
				}
				got, gotOther := c18Nib(row[1], c.Pos), c18Nib(row[1], 1-c.Pos)
				if got != want {
					v = &c18Viol{"C18/row-increment-wrong", fmt.Sprintf("increment #%d of nibble %d of byte %#02x: counter %d -> %d, want %d (saturating at 15)", i, c.Pos, c.Byte, cur, got, want)}
					return
				}
				if gotOther != other || row[0] != c.Fill || row[2] != c.Fill {
					v = &c18Viol{"C18/row-increment-touches-neighbour", fmt.Sprintf("increment #%d of nibble %d of byte %#02x (neighbour bytes %#02x): row became % x, neighbour counter %d -> %d", i, c.Pos, c.Byte, c.Fill, row, other, gotOther)}
					return
				}
				if g := ristretto.VerifRowGet(row, n); g != got {
					v = &c18Viol{"C18/row-get-wrong", fmt.Sprintf("get after increment = %d, raw nibble %d", g, got)}
					return
				}
				cur = want
			}
		case "reset":
			ristretto.VerifRowReset(row)
			for i, orig := range []byte{c.Fill, c.Byte, c.Fill} {
				for pos := 0; pos < 2; pos++ {
					if got, want := c18Nib(row[i], pos), c18Nib(orig, pos)/2; got != want {
						v = &c18Viol{"C18/row-reset-wrong", fmt.Sprintf("reset of row % x: byte %d nibble %d: %d -> %d, want %d", []byte{c.Fill, c.Byte, c.Fill}, i, pos, c18Nib(orig, pos), got, want)}
						return
					}
				}
			}
		case "clear":
			ristretto.VerifRowClear(row)
			for i := range row {
				if row[i] != 0 {
					v = &c18Viol{"C18/row-clear-wrong", fmt.Sprintf("clear of row % x left % x", []byte{c.Fill, c.Byte, c.Fill}, row)}
					return
				}
			}
		default:
			ev.Fatalf("C18: unknown row op %q", c.Op)
		}
	})
	if p != nil {
		return &c18Viol{"C18/row-op-panics", fmt.Sprintf("row %s on byte %#02x panicked: %v", c.Op, c.Byte, p)}
	}
	return v
}

func c18ByteSpace(r *ev.Run) (evals int64) {
	for _, fill := range []byte{0x00, 0xff, 0x5a} {
		for b := 0; b < 256; b++ {
			for pos := 0; pos < 2; pos++ {
				for _, op := range []string{"increment", "reset", "clear"} {
					if op != "increment" && pos == 1 {
						continue
					}
					c := c18RowCase{Op: op, Byte: byte(b), Pos: pos, Fill: fill}
					if op == "increment" {
						c.Count = 17
						evals += 17
					} else {
						evals++
					}
					if v := c18RowCheck(c); v != nil {
						r.Violation(v.key, v.what, c18Case{Part: "row", Row: &c})
					}
				}
			}
		}
	}
	return evals
}

// (c') the rounding function itself for every power of two and its neighbours up to 2^62 (tables
// that large cannot be allocated, so the function is called directly through the white-box export)
func c18Next2PowerSweep() (int64, *c18Viol) {
	var n int64
	for k := uint(1); k <= 62; k++ {
		for _, x := range []int64{1<<k - 1, 1 << k, 1<<k + 1, 1<<k + 1<<(k/2), 3 << (k - 1)} {
			if x < 2 || x > 1<<62 {
				continue
			}
			n++
			want := int64(1)
			for want < x {
				want <<= 1
			}
			if got := ristretto.VerifNext2Power(x); got != want {
				return n, &c18Viol{"C18/next-power-of-two-wrong", fmt.Sprintf("the table-size rounding of NumCounters=%d gives %d, the next power of two is %d", x, got, want)}
			}
		}
	}
	return n, nil
}

// (c) sizing
func c18SizeCheck(nc int64) *c18Viol {
	var v *c18Viol
	want := c18NextPow2(nc)
	p := c18Try(func() {
		sk := ristretto.VerifNewSketch(nc)
		tl := ristretto.VerifNewTinyLFU(nc)
		for name, rows := range map[string][][]byte{"cmSketch": sk.Rows(), "tinyLFU": tl.Rows()} {
			if len(rows) != 4 {
				v = &c18Viol{"C18/table-size", fmt.Sprintf("%s(NumCounters=%d) has %d rows", name, nc, len(rows))}
				return
			}
			for i, row := range rows {
				if int64(len(row))*2 != want {
					v = &c18Viol{"C18/table-size", fmt.Sprintf("%s(NumCounters=%d): row %d holds %d counters, next power of two is %d", name, nc, i, len(row)*2, want)}
					return
				}
			}
		}
		if int64(sk.Mask())+1 != want || int64(tl.Mask())+1 != want {
			v = &c18Viol{"C18/table-size", fmt.Sprintf("NumCounters=%d: mask+1 = %d / %d, next power of two is %d", nc, sk.Mask()+1, tl.Mask()+1, want)}
		}
	})
	if p != nil {
		return &c18Viol{"C18/constructor-panics", fmt.Sprintf("constructing sketch / tinyLFU with NumCounters=%d panicked: %v", nc, p)}
	}
	return v
}

// ---------------------------------------------------------------------------------------------
// (b) the real objects behind one small interface

type c18Snap struct {
	rows  []byte // the 4 rows concatenated
	door  []uint64
	incrs int64
	extra []byte // raw bytes of private fields the harness does not know by name (empty on the known layout)
}

func (a *c18Snap) equalState(b *c18Snap) bool {
	if string(a.rows) != string(b.rows) || string(a.extra) != string(b.extra) || a.incrs != b.incrs || len(a.door) != len(b.door) {
		return false
	}
	for i := range a.door {
		if a.door[i] != b.door[i] {
			return false
		}
	}
	return true
}

type c18Sys struct {
	tiny   bool
	nc     int64
	seeds  [4]uint64
	sk     ristretto.VerifSketch
	tl     ristretto.VerifTinyLFU
	mask   uint64
	rowLen int
	keys   []uint64 // alphabet (deduplicated, order kept)
	probes []uint64 // keys, then every hash 0..mask not already present
	limit  int64    // upper bound on an estimate
	rb     [4][]byte
	pure   ristretto.VerifSketch // tinyLFU engine: a bare sketch with the same seeds, for "estimate after aging == halved counter"
	prb    [4][]byte
}

func c18NewSys(tiny bool, nc int64, seeds [4]uint64) (s *c18Sys, p any) {
	s = &c18Sys{tiny: tiny, nc: nc, seeds: seeds, limit: 15}
	p = c18Try(func() {
		if tiny {
			s.tl = ristretto.VerifNewTinyLFU(nc)
			s.tl.SetSeeds(seeds)
			s.mask = s.tl.Mask()
			s.limit = 16
			s.pure = ristretto.VerifNewSketch(nc)
			s.pure.SetSeeds(seeds)
		} else {
			s.sk = ristretto.VerifNewSketch(nc)
			s.sk.SetSeeds(seeds)
			s.mask = s.sk.Mask()
		}
	})
	if p != nil {
		return nil, p
	}
	nr := 0
	if tiny {
		nr = len(s.tl.Rows())
	} else {
		nr = len(s.sk.Rows())
	}
	if nr != 4 {
		ev.Fatalf("C18: sketch with %d rows; harness expects 4", nr)
	}
	rows := s.rowsOf()
	s.rowLen = len(rows[0])
	for _, h := range []uint64{0, 1, 2, s.mask, ^uint64(0)} {
		dup := false
		for _, k := range s.keys {
			dup = dup || k == h
		}
		if !dup {
			s.keys = append(s.keys, h)
		}
	}
	s.probes = append(s.probes, s.keys...)
	for h := uint64(0); h <= s.mask && h < 64; h++ {
		dup := false
		for _, k := range s.keys {
			dup = dup || k == h
		}
		if !dup {
			s.probes = append(s.probes, h)
		}
	}
	return s, nil
}

func (s *c18Sys) rowsOf() [][]byte {
	if s.tiny {
		s.tl.RowsInto(&s.rb)
	} else {
		s.sk.RowsInto(&s.rb)
	}
	return s.rb[:]
}

// observe reads the complete state and the estimates of all probes.
func (s *c18Sys) observe(sn *c18Snap, est []int64) (p any) {
	return c18Try(func() {
		sn.rows = sn.rows[:0]
		for _, row := range s.rowsOf() {
			sn.rows = append(sn.rows, row...)
		}
		sn.door = sn.door[:0]
		sn.incrs = 0
		if s.tiny {
			sn.door = append(sn.door, s.tl.DoorBits()...)
			sn.incrs, _ = s.tl.Incrs()
			sn.extra = s.tl.Extra(sn.extra[:0])
		} else {
			sn.extra = s.sk.Extra(sn.extra[:0])
		}
		for i, h := range s.probes {
			if s.tiny {
				est[i] = s.tl.Estimate(h)
			} else {
				est[i] = s.sk.Estimate(h)
			}
		}
	})
}

// restore writes a previously observed state into the live object.
func (s *c18Sys) restore(sn *c18Snap) {
	rows := s.rowsOf()
	if len(sn.rows) != 4*s.rowLen {
		ev.Fatalf("C18: restore of a state with a different table size")
	}
	for i, row := range rows {
		if len(row) != s.rowLen {
			ev.Fatalf("C18: row length changed under the harness")
		}
		copy(row, sn.rows[i*s.rowLen:(i+1)*s.rowLen])
	}
	if s.tiny {
		d := s.tl.DoorBits()
		if len(d) != len(sn.door) {
			ev.Fatalf("C18: doorkeeper size changed under the harness")
		}
		copy(d, sn.door)
		s.tl.SetIncrs(sn.incrs)
		// the doorkeeper's public ElemNum counter is not part of the state (the code never reads
		// it), but keep the invariant every real execution has: it is non-zero exactly when
		// something was added since the last clear
		var bits uint64
		for _, w := range sn.door {
			if w != 0 {
				bits++
			}
		}
		s.tl.SetDoorElemNum(bits)
		s.tl.SetExtra(sn.extra)
	} else {
		s.sk.SetExtra(sn.extra)
	}
}

func (s *c18Sys) do(e c18Ev) (p any) {
	return c18Try(func() {
		switch e.op {
		case c18Inc:
			if s.tiny {
				s.tl.Increment(s.keys[e.k])
			} else {
				s.sk.Increment(s.keys[e.k])
			}
		case c18Reset:
			if s.tiny {
				s.tl.Reset()
			} else {
				s.sk.Reset()
			}
		case c18Clear:
			if s.tiny {
				s.tl.Clear()
			} else {
				s.sk.Clear()
			}
		case c18Push:
			s.tl.Push(s.batch(e.k))
		}
	})
}

// batch: the key hashes of batch b (keys beyond the alphabet of this configuration wrap around).
func (s *c18Sys) batch(b uint8) []uint64 {
	var out []uint64
	for _, k := range c18Batches[b] {
		out = append(out, s.keys[int(k)%len(s.keys)])
	}
	return out
}

// rowsDisagree reports whether some probe hash reads different counter values in different
// rows. Statistic only (never an oracle): it documents that, because the seed merely permutes
// positions inside a row, "minimum over rows" is not observable on reachable states.
func (s *c18Sys) rowsDisagree(rows []byte) bool {
	for _, h := range s.probes {
		first := byte(0)
		for i := 0; i < 4; i++ {
			idx := (h ^ s.seeds[i]) & s.mask
			v := c18Nib(rows[i*s.rowLen+int(idx/2)], int(idx&1))
			if i == 0 {
				first = v
			} else if v != first {
				return true
			}
		}
	}
	return false
}

func (s *c18Sys) evString(e c18Ev) string {
	if e.op == c18Inc {
		return fmt.Sprintf("Increment(%#x)", s.keys[e.k])
	}
	if e.op == c18Push {
		return fmt.Sprintf("Push(%#x)", s.batch(e.k))
	}
	return c18OpNames[e.op]
}

func c18AllZero64(x []uint64) bool {
	for _, w := range x {
		if w != 0 {
			return false
		}
	}
	return true
}

// c18Step executes event e on s (whose current state is pre / estPre), fills post / estPost,
// updates the model vector n and returns the first oracle violation. aux is a second real
// object of the same configuration used for the differential check of the automatic reset.
// autoReset reports whether the Increment triggered the automatic aging reset.
func c18Step(s, aux *c18Sys, n []uint8, e c18Ev, pre *c18Snap, estPre []int64, post *c18Snap, estPost []int64, tmp *c18Snap, tmpEst []int64) (v *c18Viol, autoReset bool) {
	if p := s.do(e); p != nil {
		return &c18Viol{"C18/panic-" + c18OpNames[e.op], fmt.Sprintf("%s panicked: %v", s.evString(e), p)}, false
	}
	if p := s.observe(post, estPost); p != nil {
		return &c18Viol{"C18/panic-estimate", fmt.Sprintf("Estimate after %s panicked: %v", s.evString(e), p)}, false
	}
	if len(post.rows) != len(pre.rows) || len(post.door) != len(pre.door) {
		return &c18Viol{"C18/table-size-changed", fmt.Sprintf("%s changed the table size: rows %d -> %d bytes, doorkeeper %d -> %d words", s.evString(e), len(pre.rows), len(post.rows), len(pre.door), len(post.door))}, false
	}
	switch e.op {
	case c18Inc:
		// an Increment leaves the key's first-access mark (or had it already): an empty doorkeeper
		// afterwards means the automatic aging reset ran (how the implementation counts towards
		// the next reset - and when it falls - is not part of the property)
		autoReset = s.tiny && c18AllZero64(post.door)
		if !autoReset {
			for i, h := range s.probes {
				if estPost[i] < estPre[i] {
					return &c18Viol{"C18/increment-lowers-estimate", fmt.Sprintf("%s (no reset) lowered the estimate of %#x from %d to %d", s.evString(e), h, estPre[i], estPost[i])}, false
				}
			}
			if n[e.k] < 15 { // the oracle only reads min(n,15)
				n[e.k]++
			}
		} else {
			if !c18AllZero64(post.door) {
				return &c18Viol{"C18/reset-keeps-doorkeeper", fmt.Sprintf("%s triggered the automatic reset but the doorkeeper is not empty afterwards", s.evString(e))}, true
			}
			if pre.incrs > 0 {
				// differential: same Increment with incrs rewound to 0 (no reset), then a forced reset
				saved := pre.incrs
				pre.incrs = 0
				aux.restore(pre)
				pre.incrs = saved
				if p := aux.do(e); p != nil {
					return &c18Viol{"C18/panic-increment", fmt.Sprintf("%s panicked: %v", s.evString(e), p)}, true
				}
				if p := aux.observe(tmp, tmpEst); p != nil {
					return &c18Viol{"C18/panic-estimate", fmt.Sprintf("Estimate panicked: %v", p)}, true
				}
				if !c18AllZero64(tmp.door) { // the rewound Increment did not reset
					if p := aux.do(c18Ev{op: c18Reset}); p != nil {
						return &c18Viol{"C18/panic-reset", fmt.Sprintf("reset panicked: %v", p)}, true
					}
					if p := aux.observe(tmp, tmpEst); p != nil {
						return &c18Viol{"C18/panic-estimate", fmt.Sprintf("Estimate panicked: %v", p)}, true
					}
					if string(tmp.rows) != string(post.rows) || !c18AllZero64(tmp.door) {
						return &c18Viol{"C18/auto-reset-differs-from-increment-then-reset", fmt.Sprintf("%s with automatic reset left rows % x, but Increment followed by a forced reset leaves % x", s.evString(e), post.rows, tmp.rows)}, true
					}
				}
			}
			for i := range n {
				n[i] = 0
			}
		}
	case c18Push:
		// A batch of Gets. Without an aging reset inside the batch (incrs advanced by exactly
		// the batch length) every key of the batch was recorded once per occurrence and no estimate
		// may drop. With a reset somewhere in or after the batch the property does not say where it
		// falls: the model restarts at 0 (the weakest reading: the reset came last).
		b := c18Batches[e.k]
		if post.incrs == pre.incrs+int64(len(b)) {
			for i, h := range s.probes {
				if estPost[i] < estPre[i] {
					return &c18Viol{"C18/increment-lowers-estimate", fmt.Sprintf("%s (no reset) lowered the estimate of %#x from %d to %d", s.evString(e), h, estPre[i], estPost[i])}, false
				}
			}
			for _, k := range b {
				if ki := int(k) % len(s.keys); n[ki] < 15 {
					n[ki]++
				}
			}
		} else {
			autoReset = true
			for i := range n {
				n[i] = 0
			}
		}
	case c18Reset:
		for i := range post.rows {
			for pos := 0; pos < 2; pos++ {
				if got, want := c18Nib(post.rows[i], pos), c18Nib(pre.rows[i], pos)>>1; got != want {
					return &c18Viol{"C18/reset-not-independent-halving", fmt.Sprintf("reset: row %d counter %d: %d -> %d, want %d (rows before % x, after % x)", i/s.rowLen, (i%s.rowLen)*2+pos, c18Nib(pre.rows[i], pos), got, want, pre.rows, post.rows)}, false
				}
			}
		}
		if !c18AllZero64(post.door) {
			return &c18Viol{"C18/reset-keeps-doorkeeper", "after the aging reset the doorkeeper is not empty (first-access marks not forgotten)"}, false
		}
		if s.tiny {
			// estimates age by halving: with the first-access marks forgotten, the estimate of every
			// key is what the halved counters alone say (read through a bare sketch holding the same rows)
			s.pure.RowsInto(&s.prb)
			ok := true
			for i := range s.prb {
				ok = ok && len(s.prb[i]) == s.rowLen
			}
			if ok {
				for i := range s.prb {
					copy(s.prb[i], post.rows[i*s.rowLen:(i+1)*s.rowLen])
				}
				for i, h := range s.probes {
					if want := s.pure.Estimate(h); estPost[i] != want {
						return &c18Viol{"C18/estimate-after-aging-is-not-the-halved-counter", fmt.Sprintf("after the aging reset the estimate of %#x is %d, but its halved counters give %d (estimate before the reset: %d)", h, estPost[i], want, estPre[i])}, false
					}
				}
			}
		}
		for i := range n {
			n[i] = 0
		}
	case c18Clear:
		zero := post.incrs == 0 && c18AllZero64(post.door)
		for _, b := range post.rows {
			zero = zero && b == 0
		}
		for _, x := range estPost {
			zero = zero && x == 0
		}
		if !zero {
			return &c18Viol{"C18/clear-leaves-state", fmt.Sprintf("after clear: rows % x, doorkeeper empty=%v, incrs %d, estimates %v", post.rows, c18AllZero64(post.door), post.incrs, estPost)}, false
		}
		for i := range n {
			n[i] = 0
		}
	}
	for i, h := range s.probes {
		if estPost[i] > s.limit || estPost[i] < 0 {
			return &c18Viol{"C18/estimate-exceeds-bound", fmt.Sprintf("after %s the estimate of %#x is %d (bound %d)", s.evString(e), h, estPost[i], s.limit)}, autoReset
		}
	}
	for i := range s.keys { // probes start with the keys
		want := int64(n[i])
		if want > 15 {
			want = 15
		}
		if estPost[i] < want {
			return &c18Viol{"C18/estimate-undercounts", fmt.Sprintf("after %s the estimate of %#x is %d although it was accessed %d times since the last reset", s.evString(e), s.keys[i], estPost[i], n[i])}, autoReset
		}
	}
	return nil, autoReset
}

func (s *c18Sys) makeCase(hist []c18Ev) c18Case {
	c := c18Case{Part: "sketch", NumCounters: s.nc, Seeds: s.seeds, Events: []c18Event{}}
	if s.tiny {
		c.Part = "tinylfu"
	}
	for _, e := range hist {
		ce := c18Event{Op: c18OpNames[e.op]}
		if e.op == c18Inc {
			ce.Key = s.keys[e.k]
		}
		if e.op == c18Push {
			ce.Keys = s.batch(e.k)
		}
		c.Events = append(c.Events, ce)
	}
	return c
}

func c18CaseString(c c18Case) string {
	if c.Part == "row" && c.Row != nil {
		return fmt.Sprintf("row %s byte %#02x nibble %d neighbours %#02x", c.Row.Op, c.Row.Byte, c.Row.Pos, c.Row.Fill)
	}
	s := fmt.Sprintf("%s(NumCounters=%d, seeds=%#x):", c.Part, c.NumCounters, c.Seeds)
	run := 0
	for i, e := range c.Events {
		run++
		if i+1 < len(c.Events) && fmt.Sprint(c.Events[i+1]) == fmt.Sprint(e) {
			continue
		}
		if e.Op == "increment" {
			s += fmt.Sprintf(" Increment(%#x)", e.Key)
		} else {
			s += " " + e.Op
		}
		if run > 1 {
			s += fmt.Sprintf("x%d", run)
		}
		run = 0
	}
	return s
}

// c18RunCase executes a history on FRESH objects with the full oracle on every step and
// returns the first violation, its position, and the final state / model vector.
func c18RunCase(c c18Case, verbose bool) (v *c18Viol, at int, final *c18Snap, n []uint8) {
	switch c.Part {
	case "row":
		if c.Row == nil {
			ev.Fatalf("C18 replay: row case without parameters")
		}
		return c18RowCheck(*c.Row), 0, nil, nil
	case "size":
		return c18SizeCheck(c.NumCounters), 0, nil, nil
	case "sketch", "tinylfu":
	default:
		ev.Fatalf("C18 replay: unknown part %q", c.Part)
	}
	tiny := c.Part == "tinylfu"
	s, p := c18NewSys(tiny, c.NumCounters, c.Seeds)
	if p != nil {
		return &c18Viol{"C18/constructor-panics", fmt.Sprintf("constructor panicked: %v", p)}, -1, nil, nil
	}
	aux, _ := c18NewSys(tiny, c.NumCounters, c.Seeds)
	np := len(s.probes)
	pre, post, tmp := &c18Snap{}, &c18Snap{}, &c18Snap{}
	estPre, estPost, tmpEst := make([]int64, np), make([]int64, np), make([]int64, np)
	n = make([]uint8, len(s.keys))
	if p := s.observe(pre, estPre); p != nil {
		return &c18Viol{"C18/panic-estimate", fmt.Sprintf("Estimate on a fresh object panicked: %v", p)}, -1, nil, nil
	}
	for i, ce := range c.Events {
		e := c18Ev{}
		found := false
		for k, name := range c18OpNames {
			if name == ce.Op {
				e.op, found = uint8(k), true
			}
		}
		if !found {
			ev.Fatalf("C18 replay: unknown op %q", ce.Op)
		}
		if e.op == c18Inc {
			found = false
			for k, h := range s.keys {
				if h == ce.Key {
					e.k, found = uint8(k), true
				}
			}
			if !found {
				ev.Fatalf("C18 replay: key hash %#x not in the alphabet", ce.Key)
			}
		}
		if e.op == c18Push {
			found = false
			for b := range c18Batches {
				if fmt.Sprint(s.batch(uint8(b))) == fmt.Sprint(ce.Keys) {
					e.k, found = uint8(b), true
					break
				}
			}
			if !found {
				ev.Fatalf("C18 replay: batch %#x not in the alphabet", ce.Keys)
			}
		}
		v, auto := c18Step(s, aux, n, e, pre, estPre, post, estPost, tmp, tmpEst)
		if verbose {
			fmt.Printf("  step %d %s: rows % x incrs %d doorkeeper-empty %v autoreset %v n=%v estimates(keys)=%v\n", i, s.evString(e), post.rows, post.incrs, c18AllZero64(post.door), auto, n, estPost[:len(s.keys)])
		}
		if v != nil {
			return v, i, post, n
		}
		pre, post = post, pre
		estPre, estPost = estPost, estPre
	}
	return nil, -1, pre, n
}

// ---------------------------------------------------------------------------------------------
// explicit-state search

type c18Config struct {
	Engine       string    `json:"engine"`
	NumCounters  int64     `json:"num_counters"`
	Seeds        [4]uint64 `json:"seeds"`
	Counters     int64     `json:"counters_per_row"`
	Keys         []uint64  `json:"key_hashes"`
	Probes       int       `json:"probe_hashes"`
	DepthBound   int       `json:"depth_bound"` // 0 = none (fixpoint)
	ImplStates   int64     `json:"impl_states"`
	RowsDisagree int64     `json:"impl_states_with_unequal_row_counters_for_a_hash"`
	States       int64     `json:"states"`
	Subsumed     int64     `json:"successors_subsumed"`
	Trans        int64     `json:"transitions"`
	AutoResets   int64     `json:"automatic_resets"`
	Saturated    int64     `json:"transitions_on_saturated_counter"`
	MaxDepth     int       `json:"max_depth"`
	Replayed     int64     `json:"histories_replayed_from_scratch"`
	Violations   int64     `json:"violations"`
	Exhaustive   bool      `json:"exhaustive"`
	Stopped      string    `json:"stopped,omitempty"`
	WallS        float64   `json:"wall_s"`

	tiny   bool
	viols  []c18Found
	sample *c18Case
}

type c18Found struct {
	v *c18Viol
	c c18Case
}

type c18Node struct {
	impl   int32
	parent int32
	next   int32 // next node with the same implementation state
	depth  uint32
	n      [5]uint8
	ev     c18Ev
	dead   bool
}

const c18ChunkBits = 16

// c18Search keeps the nodes in fixed-size chunks (no re-allocation while growing).
type c18Search struct {
	cfg      *c18Config
	s, aux   *c18Sys
	chunks   [][]c18Node
	nNodes   int
	implIdx  map[string]int32
	implKeys []string
	implHead []int32 // first node of each implementation state's chain, -1 if none
	doorIdx  map[string]uint32
	doors    [][]uint64
	kb, db   []byte
}

func (q *c18Search) node(id int32) *c18Node {
	return &q.chunks[id>>c18ChunkBits][id&(1<<c18ChunkBits-1)]
}

func (q *c18Search) encode(sn *c18Snap) []byte {
	b := q.kb[:0]
	if q.s.tiny {
		db := q.db[:0]
		for _, w := range sn.door {
			db = binary.LittleEndian.AppendUint64(db, w)
		}
		q.db = db
		id, ok := q.doorIdx[string(db)]
		if !ok {
			id = uint32(len(q.doors))
			q.doorIdx[string(db)] = id
			q.doors = append(q.doors, append([]uint64(nil), sn.door...))
		}
		b = binary.LittleEndian.AppendUint32(b, id)
		b = binary.LittleEndian.AppendUint64(b, uint64(sn.incrs))
	}
	b = append(b, sn.rows...)
	b = append(b, sn.extra...)
	q.kb = b
	return b
}

func (q *c18Search) decode(key string, sn *c18Snap) {
	sn.door = sn.door[:0]
	sn.incrs = 0
	if q.s.tiny {
		id := uint32(key[0]) | uint32(key[1])<<8 | uint32(key[2])<<16 | uint32(key[3])<<24
		var x uint64
		for i := 0; i < 8; i++ {
			x |= uint64(key[4+i]) << (8 * uint(i))
		}
		sn.incrs = int64(x)
		sn.door = append(sn.door, q.doors[id]...)
		key = key[12:]
	}
	nr := 4 * q.s.rowLen
	sn.rows = append(sn.rows[:0], key[:nr]...)
	sn.extra = append(sn.extra[:0], key[nr:]...)
}

func (q *c18Search) history(id int32) []c18Ev {
	var rev []c18Ev
	for id > 0 {
		nd := q.node(id)
		rev = append(rev, nd.ev)
		id = nd.parent
	}
	for i, j := 0, len(rev)-1; i < j; i, j = i+1, j-1 {
		rev[i], rev[j] = rev[j], rev[i]
	}
	return rev
}

// insert records (impl state, n) unless subsumed; returns the node id or -1.
func (q *c18Search) insert(sn *c18Snap, n []uint8, parent int32, e c18Ev, depth int) int32 {
	key := q.encode(sn)
	impl, ok := q.implIdx[string(key)]
	if !ok {
		impl = int32(len(q.implKeys))
		ks := string(key)
		q.implIdx[ks] = impl
		q.implKeys = append(q.implKeys, ks)
		q.implHead = append(q.implHead, -1)
		if q.s.rowsDisagree(sn.rows) {
			q.cfg.RowsDisagree++
		}
	}
	var nv [5]uint8
	copy(nv[:], n)
	for id := q.implHead[impl]; id >= 0; {
		nd := q.node(id)
		o := &nd.n
		if o[0] >= nv[0] && o[1] >= nv[1] && o[2] >= nv[2] && o[3] >= nv[3] && o[4] >= nv[4] {
			// subsumed (a dead node in the chain is itself subsumed by a live one, so this is transitive)
			q.cfg.Subsumed++
			return -1
		}
		if !nd.dead && nv[0] >= o[0] && nv[1] >= o[1] && nv[2] >= o[2] && nv[3] >= o[3] && nv[4] >= o[4] {
			nd.dead = true // subsumed by the new node: need not be expanded if still waiting
		}
		id = nd.next
	}
	if q.nNodes>>c18ChunkBits >= len(q.chunks) {
		q.chunks = append(q.chunks, make([]c18Node, 1<<c18ChunkBits))
	}
	id := int32(q.nNodes)
	q.nNodes++
	*q.node(id) = c18Node{impl: impl, parent: parent, next: q.implHead[impl], n: nv, ev: e, depth: uint32(depth)}
	q.implHead[impl] = id
	return id
}

const c18ReplayStride = 997

func c18Explore(cfg *c18Config, deadline time.Time, maxNodes int) {
	start := time.Now()
	defer func() { cfg.WallS = time.Since(start).Seconds() }()
	s, p := c18NewSys(cfg.tiny, cfg.NumCounters, cfg.Seeds)
	if p != nil {
		cfg.viols = append(cfg.viols, c18Found{&c18Viol{"C18/constructor-panics", fmt.Sprintf("constructor panicked: %v", p)}, c18Case{Part: cfg.Engine, NumCounters: cfg.NumCounters, Seeds: cfg.Seeds}})
		cfg.Violations++
		return
	}
	aux, _ := c18NewSys(cfg.tiny, cfg.NumCounters, cfg.Seeds)
	cfg.Counters = int64(s.rowLen) * 2
	cfg.Keys = s.keys
	cfg.Probes = len(s.probes)
	if v := c18SizeCheck(cfg.NumCounters); v != nil {
		cfg.viols = append(cfg.viols, c18Found{v, c18Case{Part: "size", NumCounters: cfg.NumCounters}})
		cfg.Violations++
		return
	}
	q := &c18Search{cfg: cfg, s: s, aux: aux, implIdx: map[string]int32{}, doorIdx: map[string]uint32{}}
	np := len(s.probes)
	pre, post, tmp := &c18Snap{}, &c18Snap{}, &c18Snap{}
	estPre, estPost, tmpEst := make([]int64, np), make([]int64, np), make([]int64, np)
	if p := s.observe(pre, estPre); p != nil {
		cfg.viols = append(cfg.viols, c18Found{&c18Viol{"C18/panic-estimate", fmt.Sprintf("Estimate on a fresh object panicked: %v", p)}, s.makeCase(nil)})
		cfg.Violations++
		return
	}
	var events []c18Ev
	for k := range s.keys {
		events = append(events, c18Ev{c18Inc, uint8(k)})
	}
	events = append(events, c18Ev{op: c18Reset}, c18Ev{op: c18Clear})
	if s.tiny {
		for b := range c18Batches {
			events = append(events, c18Ev{c18Push, uint8(b)})
		}
	}
	n0 := make([]uint8, len(s.keys))
	q.insert(pre, n0, -1, c18Ev{}, 0)
	cfg.Exhaustive = true
	nvec := make([]uint8, len(s.keys))
	for head := 0; head < q.nNodes; head++ {
		nd := *q.node(int32(head))
		if nd.dead {
			continue
		}
		if int(nd.depth) > cfg.MaxDepth {
			cfg.MaxDepth = int(nd.depth)
		}
		if head%c18ReplayStride == 0 && head > 0 {
			// validate the restore shortcut: the whole history on a fresh object reaches this very node
			c := s.makeCase(q.history(int32(head)))
			v, _, fin, fn := c18RunCase(c, false)
			cfg.Replayed++
			q.decode(q.implKeys[nd.impl], pre)
			var fv [5]uint8
			copy(fv[:], fn)
			if v != nil || fin == nil || !fin.equalState(pre) || fv != nd.n {
				ev.Fatalf("C18: history of search node %d does not reproduce its state on a fresh object (restore shortcut unsound?): %s", head, c18CaseString(c))
			}
		}
		if cfg.DepthBound > 0 && int(nd.depth) >= cfg.DepthBound {
			cfg.Exhaustive = false
			cfg.Stopped = "depth bound"
			continue
		}
		if head&1023 == 0 && time.Now().After(deadline) {
			cfg.Exhaustive = false
			cfg.Stopped = "deadline"
			break
		}
		if q.nNodes > maxNodes {
			cfg.Exhaustive = false
			cfg.Stopped = "node cap"
			break
		}
		if cfg.Violations >= 10 {
			cfg.Exhaustive = false
			cfg.Stopped = "10 violations"
			break
		}
		q.decode(q.implKeys[nd.impl], pre)
		s.restore(pre)
		if p := s.observe(tmp, estPre); p != nil || !tmp.equalState(pre) {
			ev.Fatalf("C18: restored state reads back differently (panic %v)", p)
		}
		for ei, e := range events {
			if ei > 0 {
				s.restore(pre)
			}
			copy(nvec, nd.n[:])
			v, auto := c18Step(s, aux, nvec, e, pre, estPre, post, estPost, tmp, tmpEst)
			cfg.Trans++
			if auto {
				cfg.AutoResets++
			}
			if e.op == c18Inc && estPre[e.k] >= 15 {
				cfg.Saturated++
			}
			if v != nil {
				hist := append(q.history(int32(head)), e)
				c := s.makeCase(hist)
				v2, at, _, _ := c18RunCase(c, false)
				cfg.Replayed++
				if v2 == nil || v2.key != v.key || at != len(hist)-1 {
					got := "no violation"
					if v2 != nil {
						got = fmt.Sprintf("%s at step %d", v2.key, at)
					}
					ev.Fatalf("C18: violation %s (%s) found from a restored state did not reproduce from a fresh object (%s): %s", v.key, v.what, got, c18CaseString(c))
				}
				cfg.Violations++
				cfg.viols = append(cfg.viols, c18Found{v, c})
				continue
			}
			q.insert(post, nvec, int32(head), e, int(nd.depth)+1)
		}
	}
	cfg.ImplStates = int64(len(q.implKeys))
	cfg.States = int64(q.nNodes)
	// sample: the history of the last (deepest) node
	if q.nNodes > 1 {
		c := s.makeCase(q.history(int32(q.nNodes - 1)))
		cfg.sample = &c
	}
}

func c18(tier string, r *ev.Run, replay string) {
	if replay != "" {
		b, err := os.ReadFile(replay)
		if err != nil {
			ev.Fatalf("C18 replay: %v", err)
		}
		var f struct {
			Replay c18Case `json:"replay"`
		}
		if err := json.Unmarshal(b, &f); err != nil {
			ev.Fatalf("C18 replay: %v", err)
		}
		fmt.Printf("replaying %s\n", c18CaseString(f.Replay))
		v, at, _, _ := c18RunCase(f.Replay, true)
		if v != nil {
			fmt.Printf("  still fails at step %d: %s\n", at, v.what)
			r.Violation(v.key, v.what+" — history: "+c18CaseString(f.Replay), f.Replay)
		} else {
			fmt.Println("  no violation any more")
		}
		r.Cov["states"], r.Cov["transitions"], r.Cov["traces_validated_against_impl"] = 0, len(f.Replay.Events), 1
		r.Cov["exhaustive"] = false
		r.Cov["replay"] = replay
		return
	}

	if names, plain := ristretto.VerifSketchExtraInfo(); len(names) > 0 {
		if !plain {
			ev.Fatalf("C18: cmSketch / tinyLFU / z.Bloom gained private fields that are not plain data (%v): observed states cannot be written back into a live object, the search cannot run", names)
		}
		fmt.Printf("C18 note: unknown private fields %v are carried as opaque bytes in every snapshot and state key\n", names)
		r.Cov["unknown_private_fields_carried_as_opaque_state"] = names
	}
	// (a)
	byteEvals := c18ByteSpace(r)
	// (c)
	var sizes []int64
	for nc := int64(2); nc <= 1025; nc++ {
		sizes = append(sizes, nc)
	}
	for k := uint(11); k <= 16; k++ {
		sizes = append(sizes, int64(1)<<k-1, int64(1)<<k, int64(1)<<k+1)
	}
	for _, nc := range sizes {
		if v := c18SizeCheck(nc); v != nil {
			r.Violation(v.key, v.what, c18Case{Part: "size", NumCounters: nc})
		}
	}
	// (d) doorkeeper edge hashes: hashes whose first-access mark lies in the first / last word of
	// the doorkeeper's bitset (all-ones high part with zero low part puts every probe on the very
	// last bit). After an aging reset and after a clear the marks must be forgotten.
	edgeN := 0
	for _, nc := range []int64{2, 3, 4, 5, 8, 16, 64, 100, 1000, 5000} {
		for _, h := range []uint64{0xffffffff00000000, 0xfffffff800000000, ^uint64(0), 1 << 63, 0, 0x00000001ffffffff} {
			for _, op := range []string{"reset", "clear"} {
				edgeN++
				var bad string
				p := c18Try(func() {
					tl := ristretto.VerifNewTinyLFU(nc)
					tl.Increment(h)
					tl.Increment(h)
					before := tl.Estimate(h)
					if op == "reset" {
						tl.Reset()
					} else {
						tl.Clear()
					}
					for _, w := range tl.DoorBits() {
						if w != 0 {
							bad = fmt.Sprintf("tinyLFU(NumCounters=%d): after Increment(%#x) x2 and %s the doorkeeper still holds first-access marks", nc, h, op)
							return
						}
					}
					after := tl.Estimate(h)
					want := int64(0)
					if op == "reset" {
						want = (before - 1) / 2 // the sketch counter (estimate minus the mark) halved, mark forgotten
					}
					if after != want {
						bad = fmt.Sprintf("tinyLFU(NumCounters=%d): estimate of %#x was %d, after %s it is %d, want %d", nc, h, before, op, after, want)
					}
				})
				if p != nil {
					bad = fmt.Sprintf("tinyLFU(NumCounters=%d) panicked on hash %#x: %v", nc, h, p)
				}
				if bad != "" {
					r.Violation("C18/"+op+"-keeps-first-access-mark-of-edge-hash", bad, c18Case{Part: "doorkeeper-edge", NumCounters: nc})
				}
			}
		}
	}
	r.Cov["doorkeeper_edge_hash_cases"] = edgeN
	sweepN, sweepV := c18Next2PowerSweep()
	if sweepV != nil {
		r.Violation(sweepV.key, sweepV.what, c18Case{Part: "size-function"})
	}
	r.Cov["table_size_function_inputs_up_to_2^62"] = sweepN

	// (b)
	seedVecs := [][4]uint64{
		{0, 0, 0, 0},
		{1, 2, 5, 15},
		{0x9e3779b97f4a7c15, 0xbf58476d1ce4e5b9, 0x94d049bb133111eb, 0x2545f4914f6cdd1d},
		{^uint64(0), 1 << 63, 0x5555555555555555, 0xaaaaaaaaaaaaaaaa},
	}
	ncs := []int64{2, 3, 4, 5, 8, 16}
	budget := 40 * time.Second
	workers := min(runtime.NumCPU(), 8)
	maxNodes := 80_000_000
	if tier == "thorough" {
		budget = 9 * time.Minute
		workers = runtime.NumCPU()
		if workers > 16 {
			workers = 16
		}
	}
	deadline := time.Now().Add(budget)
	var cfgs []*c18Config
	for _, tiny := range []bool{false, true} {
		for _, nc := range ncs {
			for si, sv := range seedVecs {
				c := &c18Config{Engine: "sketch", NumCounters: nc, Seeds: sv, tiny: tiny}
				if tiny {
					c.Engine = "tinylfu"
				}
				c.DepthBound = c18QuickBound(tier, tiny, nc, si)
				cfgs = append(cfgs, c)
			}
		}
	}
	var wg sync.WaitGroup
	work := make(chan *c18Config)
	for w := 0; w < workers; w++ {
		wg.Add(1)
		go func() {
			// no deferred Done: a harness panic in a worker must crash the process (exit 2), not
			// release the main goroutine
			debug.SetPanicOnFault(true)
			for c := range work {
				c18Explore(c, deadline, maxNodes)
			}
			wg.Done()
		}()
	}
	for pass := 0; pass < 2; pass++ { // dispatch the most expensive configurations first
		for _, c := range cfgs {
			if big := c.tiny && c.NumCounters >= 16; big == (pass == 0) {
				work <- c
			}
		}
	}
	close(work)
	wg.Wait()

	var states, impl, trans, replayed, autos, sat, disagree int64
	exhaustive := true
	nonExh := 0
	for _, c := range cfgs {
		for _, f := range c.viols {
			r.Violation(f.v.key, f.v.what+" — history: "+c18CaseString(f.c), f.c)
		}
		states += c.States
		impl += c.ImplStates
		trans += c.Trans
		replayed += c.Replayed
		autos += c.AutoResets
		sat += c.Saturated
		disagree += c.RowsDisagree
		if !c.Exhaustive {
			exhaustive = false
			nonExh++
		}
	}
	for _, c := range cfgs {
		if c.sample != nil && c.NumCounters >= 4 {
			r.Sample(*c.sample)
		}
	}
	r.Cov["byte_space_evaluations"] = byteEvals
	r.Cov["size_checks"] = len(sizes)
	r.Cov["states"] = states
	r.Cov["impl_states"] = impl
	r.Cov["transitions"] = trans
	r.Cov["traces_validated_against_impl"] = trans
	r.Cov["histories_replayed_from_scratch"] = replayed
	r.Cov["automatic_resets"] = autos
	r.Cov["transitions_on_saturated_counter"] = sat
	r.Cov["impl_states_with_unequal_row_counters_for_a_hash"] = disagree
	r.Cov["configurations"] = cfgs
	r.Cov["configurations_total"] = len(cfgs)
	r.Cov["configurations_not_exhaustive"] = nonExh
	r.Cov["num_counters"] = ncs
	r.Cov["seed_vectors"] = len(seedVecs)
	r.Cov["key_hash_alphabet"] = "0,1,2,mask,2^64-1"
	r.Cov["exhaustive"] = exhaustive
	r.Cov["rule"] = "(a) all 256 byte values x both nibbles x neighbour bytes {00,ff,5a} for cmRow increment (17 times each)/get/reset/clear; (c) table size for NumCounters 2..1025 and 2^k-1,2^k,2^k+1 (k=11..16); (b) explicit-state search on the real cmSketch and tinyLFU: events Increment(k) for k in {0,1,2,mask,2^64-1}, forced reset, clear (tinyLFU: automatic reset inside Increment), to fixpoint unless a depth bound is listed for the configuration; states = (raw rows, doorkeeper bitset, incrs, model vector n) nodes kept after subsumption of nodes with equal implementation state and component-wise smaller n; every transition runs the real code from a restored state (traces_validated_against_impl), every 997th node's full history and every violation is re-executed on a fresh object"
	r.Assume = []string{
		"restoring an observed state (rows, doorkeeper words, incrs) into a live object reproduces the object exactly; validated by re-executing sampled histories from scratch (histories_replayed_from_scratch) — a mismatch is a harness error",
		"a clear restarts the per-key access count like an aging reset (the property speaks about accesses between two aging resets; after a clear every estimate is 0)",
		"the seed only permutes counter positions inside a row ((hash ^ seed) & mask), so keys collide in a row iff hash & mask are equal; seed vectors vary which nibble / byte neighbours the keys get",
	}
}

// c18QuickBound returns the BFS depth bound of a configuration (0 = run to fixpoint). The
// thorough tier runs everything to fixpoint. The quick tier runs to fixpoint: the bare sketch
// for NumCounters 2 (all seeds) and for one seed vector per larger NumCounters (a different one
// each), the tinyLFU for NumCounters <= 8 (all seeds); the rest is bounded by depth (the
// tinyLFU with 16 counters deep enough to pass the first automatic reset after 16 increments).
func c18QuickBound(tier string, tiny bool, nc int64, seedIdx int) int {
	if tier != "quick" {
		return 0
	}
	if !tiny {
		if nc == 2 || int(nc)%4 == seedIdx {
			return 0
		}
		return 20
	}
	if nc <= 8 {
		return 0
	}
	if seedIdx == 0 {
		return 22
	}
	return 18
}
