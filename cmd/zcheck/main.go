// zcheck: exhaustive bounded checks of the sequential z structures and the sketch
// (C10, C11, C16, C18, C19, C20). Built against /repo's current tree with the white-box
// export files added through -overlay.
package main

import (
	"fmt"
	"os"
	"runtime/debug"

	"verif/internal/ev"
)

type checkFn func(tier string, r *ev.Run, replay string)

var checks = map[string]struct {
	level string
	fn    checkFn
}{}

func register(id, level string, fn checkFn) {
	checks[id] = struct {
		level string
		fn    checkFn
	}{level, fn}
}

func main() {
	debug.SetPanicOnFault(true)
	if len(os.Args) < 3 {
		fmt.Fprintln(os.Stderr, "usage: zcheck <ID> <quick|thorough> [--replay path]")
		os.Exit(2)
	}
	id, tier := os.Args[1], os.Args[2]
	replay := ""
	for i := 3; i+1 < len(os.Args); i++ {
		if os.Args[i] == "--replay" {
			replay = os.Args[i+1]
		}
	}
	c, ok := checks[id]
	if !ok {
		ev.Fatalf("zcheck: unknown property %s", id)
	}
	if tier != "quick" && tier != "thorough" {
		ev.Fatalf("zcheck: bad tier %s", tier)
	}
	r := ev.NewRun(id, tier, c.level)
	c.fn(tier, r, replay)
	os.Exit(r.Finish())
}
