package main

import (
	"encoding/json"
	"fmt"
	"os"
	"syscall"
	"unsafe"

	"github.com/dgraph-io/ristretto/v2/z/simd"

	"verif/internal/ev"
)

// C20 — simd.Search agrees with the reference search and depends only on xs.
//
// The kernel only ever compares xs[2i] >= k (unsigned), so an input is characterised by which
// even positions are >= k. For every even length L in [0, maxL], every first-match position
// p in [0, L/2] (L/2 = none), every k of the alphabet (with concrete keys k-1 | k so that a
// signed comparison would give a different answer for k = 2^63), and EVERY {<k, >=k} pattern of
// the four key slots that follow the slice in its backing array, the result must equal
// simd.Naive on the slice proper and must be the same across all tail patterns.
func init() { register("C20", "exploration", c20) }

type c20Case struct {
	L    int    `json:"len"`
	P    int    `json:"first_match"`
	K    uint64 `json:"k"`
	Tail int    `json:"tail_pattern_bits"` // bit j set: key slot j past the slice is >= k
	Fill uint64 `json:"odd_slot_fill"`
	// Align: -1 = wherever the allocator puts it; 0..7 = the slice starts Align words past a
	// 64-byte boundary. Roomy: the slice's capacity extends over the patterned tail (the tree
	// passes such slices: a node inside its page); otherwise cap == len.
	Align int  `json:"base_words_past_64B_boundary"`
	Roomy bool `json:"cap_beyond_len,omitempty"`
}

func c20Build(c c20Case) (back []uint64, xs []uint64) {
	// 16 words of patterned tail, then 64 words that are >= every k: a kernel that runs away past
	// the slice stops inside this allocation (and returns a wrong index) instead of faulting
	back = make([]uint64, c.L+16+64+8)
	if c.Align >= 0 {
		at := int(uintptr(unsafe.Pointer(&back[0])) / 8 % 8)
		back = back[(c.Align-at+8)%8:]
	}
	back = back[:c.L+16+64]
	for i := range back {
		back[i] = c.Fill // value slots; must never influence the result
	}
	for i := c.L + 16; i < len(back); i++ {
		back[i] = ^uint64(0)
	}
	lo, hi := c.K-1, c.K // lo only used when K > 0
	n := c.L / 2
	for i := 0; i < n; i++ {
		if i < c.P {
			// strictly below k, non-decreasing
			v := lo
			if d := uint64(c.P - 1 - i); d <= lo {
				v = lo - d
			} else {
				v = 0
			}
			back[2*i] = v
		} else {
			v := hi
			if d := uint64(i - c.P); hi+d >= hi { // no wrap
				v = hi + d
			} else {
				v = ^uint64(0)
			}
			back[2*i] = v
		}
	}
	for j := 0; j < 8; j++ {
		slot := c.L + 2*j
		if j < 4 {
			if c.Tail&(1<<j) != 0 {
				back[slot] = hi
			} else {
				back[slot] = lo
			}
		} else {
			back[slot] = lo
			if c.K == 0 {
				back[slot] = 0
			}
		}
	}
	if c.Roomy {
		return back, back[:c.L : c.L+16]
	}
	return back, back[:c.L:c.L]
}

func c20(tier string, r *ev.Run, replay string) {
	if replay != "" {
		b, err := os.ReadFile(replay)
		if err != nil {
			ev.Fatalf("C20 replay: %v", err)
		}
		f := struct {
			Replay c20Case `json:"replay"`
		}{Replay: c20Case{Align: -1}}
		if err := json.Unmarshal(b, &f); err != nil {
			ev.Fatalf("C20 replay: %v", err)
		}
		_, xs := c20Build(f.Replay)
		got, ref := simd.Search(xs, f.Replay.K), simd.Naive(xs, f.Replay.K)
		fmt.Printf("C20 replay %+v: Search=%d Naive=%d\n", f.Replay, got, ref)
		if got != ref {
			r.Violation("C20/other", fmt.Sprintf("simd.Search=%d, Naive=%d for %+v", got, ref, f.Replay), f.Replay)
		}
		r.Cov["evaluations"], r.Cov["exhaustive"], r.Cov["replay"] = 1, false, replay
		return
	}
	maxL := 512
	ks := []uint64{0, 1, 2, 1 << 63, ^uint64(0) - 1, ^uint64(0)}
	fills := []uint64{^uint64(0)}
	if tier == "thorough" {
		maxL = 1024
		fills = []uint64{^uint64(0), 0}
	}
	var evals, nontriv, alignEvals int64
	distinct := map[[3]int]bool{}
	for _, fill := range fills {
		for L := 0; L <= maxL; L += 2 {
			for _, k := range ks {
				for p := 0; p <= L/2; p++ {
					if k == 0 && p > 0 {
						continue // no key is < 0
					}
					want := int16(-1)
					for tail := 0; tail < 16; tail++ {
						if k == 0 && tail != 15 {
							continue // every slot is >= 0
						}
						c := c20Case{L: L, P: p, K: k, Tail: tail, Fill: fill, Align: -1}
						_, xs := c20Build(c)
						// the expected answer is known by construction (first-match position p); the
						// portable reference implementation is code under test as well
						ref := int16(p)
						if nv := simd.Naive(xs, k); int(nv) != p {
							r.Violation("C20/reference-implementation-wrong", fmt.Sprintf("simd.Naive(len=%d,k=%d)=%d but the first key >= k is at %d", L, k, nv, p), c)
						}
						got := simd.Search(xs, k)
						evals++
						if want == -1 {
							want = got
						}
						if r.NumViolations() > 200 {
							goto done // enough evidence; do not keep running a broken kernel
						}
						if got != ref || got != want {
							key := "C20/other"
							if int(got) > L/2 {
								// classifier of finding F1: the kernel reports a "match" at a key slot at or
								// past len(xs) (it tests 4 key slots per iteration and never clamps).
								key = "C20/match-reported-past-len"
							}
							r.Violation(key, fmt.Sprintf("simd.Search(len=%d,k=%d)=%d, Naive=%d, first tail pattern gave %d (first match %d, tail pattern %04b)", L, k, got, ref, want, p, tail), c)
						}
						if L > 0 {
							nontriv++
							distinct[[3]int{L, p, tail}] = true
						}
					}
				}
			}
		}
	}
	// Second sweep: the same oracle for every placement of the slice relative to a 64-byte line
	// (8 word offsets) and for both capacity shapes, on lengths that cover several rounds of the
	// kernel's unrolled loop: the answer may depend on the CONTENTS of xs only.
	{
		maxA := 96
		if tier == "thorough" {
			maxA = 256
		}
		for L := 0; L <= maxA; L += 2 {
			for _, k := range ks {
				for p := 0; p <= L/2; p++ {
					if k == 0 && p > 0 {
						continue
					}
					for _, tail := range []int{0b0000, 0b1111, 0b0101, 0b1010} {
						if k == 0 && tail != 15 {
							continue
						}
						for al := 0; al < 8; al++ {
							for _, roomy := range []bool{false, true} {
								c := c20Case{L: L, P: p, K: k, Tail: tail, Fill: ^uint64(0), Align: al, Roomy: roomy}
								_, xs := c20Build(c)
								if L > 0 && int(uintptr(unsafe.Pointer(&xs[0]))/8%8) != al {
									ev.Fatalf("C20 generator bug: alignment %d not achieved", al)
								}
								got := simd.Search(xs, k)
								evals++
								alignEvals++
								if r.NumViolations() > 200 {
									goto done
								}
								if int(got) != p {
									key := "C20/result-depends-on-placement-or-capacity"
									if int(got) > L/2 {
										key = "C20/match-reported-past-len"
									}
									r.Violation(key, fmt.Sprintf("simd.Search(len=%d,k=%d)=%d, Naive=%d with the slice %d words past a 64-byte boundary, cap-len=%d (first match %d, tail pattern %04b)", L, k, got, p, al, cap(xs)-len(xs), p, tail), c)
								}
							}
						}
					}
				}
			}
		}
	}
done:
	// the empty input in its three shapes: nil, empty with a readable base (covered above), and
	// empty with a base that must not be touched (first byte of an inaccessible page)
	guard := c20GuardPage()
	for _, k := range ks {
		for name, xs := range map[string][]uint64{"nil": nil, "empty-at-inaccessible-page": guard} {
			func() {
				defer func() {
					if rec := recover(); rec != nil {
						r.Violation("C20/empty-slice-faults", fmt.Sprintf("simd.Search(%s slice, k=%d) faulted: %v", name, k, rec), map[string]any{"slice": name, "k": k})
					}
				}()
				if xs == nil && name != "nil" {
					return
				}
				evals++
				if got := simd.Search(xs, k); got != 0 {
					r.Violation("C20/empty-slice-wrong-result", fmt.Sprintf("simd.Search(%s slice, k=%d)=%d, want 0", name, k, got), map[string]any{"slice": name, "k": k})
				}
			}()
		}
	}
	r.Sample(c20Case{L: 2, P: 1, K: 50, Tail: 0b0001, Fill: ^uint64(0), Align: -1})
	r.Sample(c20Case{L: 14, P: 7, K: 1 << 63, Tail: 0b0101, Fill: ^uint64(0), Align: 2, Roomy: true})
	r.Cov["evaluations"] = evals
	r.Cov["evaluations_in_placement_and_capacity_sweep"] = alignEvals
	r.Cov["distinct_nontrivial"] = len(distinct)
	r.Cov["rule"] = fmt.Sprintf("every even len 0..%d x every first-match position 0..len/2 x k in %v x all 16 {<k,>=k} patterns of the 4 key slots past the slice (distinct = (len,pos,tail) triples with len>0); oracle: Search == Naive and identical across tail patterns; second sweep (len up to 96, thorough 256): x 8 placements relative to a 64-byte line x {cap == len, cap > len} x 4 tail patterns", maxL, ks)
	r.Cov["exhaustive"] = true
	r.Assume = []string{"the kernel only compares keys with k (>= unsigned), so {k-1,k}-valued keys represent all contents", "amd64 assembly kernel is what runs on this machine"}
}

// c20GuardPage returns an EMPTY []uint64 whose base pointer is the first byte of a PROT_NONE
// page (nil if the mapping cannot be made): reading even one word from it faults.
func c20GuardPage() []uint64 {
	ps := syscall.Getpagesize()
	b, err := syscall.Mmap(-1, 0, 2*ps, syscall.PROT_READ|syscall.PROT_WRITE, syscall.MAP_ANON|syscall.MAP_PRIVATE)
	if err != nil {
		return nil
	}
	if err := syscall.Mprotect(b[ps:], syscall.PROT_NONE); err != nil {
		return nil
	}
	// build the header by hand: slicing to zero capacity would not advance the base pointer
	var xs []uint64
	hdr := (*struct {
		p    unsafe.Pointer
		l, c int
	})(unsafe.Pointer(&xs))
	hdr.p = unsafe.Add(unsafe.Pointer(&b[0]), ps)
	return xs
}
