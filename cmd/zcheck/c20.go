package main

import (
	"fmt"
	"syscall"
	"unsafe"

	"github.com/dgraph-io/ristretto/v2/z/simd"

	"verif/internal/ev"
)

// C20 — simd.Search agrees with the reference search and depends only on xs.
//
// The kernel only ever compares xs[2i] >= k (unsigned), so an input is characterised by which
// even positions are >= k. For every even length L in [0, maxL], every first-match position
// p in [0, L/2] (L/2 = none), every k of the alphabet (with concrete keys k-1 | k so that a
// signed comparison would give a different answer for k = 2^63), and EVERY {<k, >=k} pattern of
// the four key slots that follow the slice in its backing array, the result must equal
// simd.Naive on the slice proper and must be the same across all tail patterns.
func init() { register("C20", "exploration", c20) }

type c20Case struct {
	L    int    `json:"len"`
	P    int    `json:"first_match"`
	K    uint64 `json:"k"`
	Tail int    `json:"tail_pattern_bits"` // bit j set: key slot j past the slice is >= k
	Fill uint64 `json:"odd_slot_fill"`
}

func c20Build(c c20Case) (back []uint64, xs []uint64) {
	// 16 words of patterned tail, then 64 words that are >= every k: a kernel that runs away past
	// the slice stops inside this allocation (and returns a wrong index) instead of faulting
	back = make([]uint64, c.L+16+64)
	for i := range back {
		back[i] = c.Fill // value slots; must never influence the result
	}
	for i := c.L + 16; i < len(back); i++ {
		back[i] = ^uint64(0)
	}
	lo, hi := c.K-1, c.K // lo only used when K > 0
	n := c.L / 2
	for i := 0; i < n; i++ {
		if i < c.P {
			// strictly below k, non-decreasing
			v := lo
			if d := uint64(c.P - 1 - i); d <= lo {
				v = lo - d
			} else {
				v = 0
			}
			back[2*i] = v
		} else {
			v := hi
			if d := uint64(i - c.P); hi+d >= hi { // no wrap
				v = hi + d
			} else {
				v = ^uint64(0)
			}
			back[2*i] = v
		}
	}
	for j := 0; j < 8; j++ {
		slot := c.L + 2*j
		if j < 4 {
			if c.Tail&(1<<j) != 0 {
				back[slot] = hi
			} else {
				back[slot] = lo
			}
		} else {
			back[slot] = lo
			if c.K == 0 {
				back[slot] = 0
			}
		}
	}
	return back, back[:c.L:c.L]
}

func c20(tier string, r *ev.Run, replay string) {
	maxL := 512
	ks := []uint64{0, 1, 2, 1 << 63, ^uint64(0) - 1, ^uint64(0)}
	fills := []uint64{^uint64(0)}
	if tier == "thorough" {
		maxL = 1024
		fills = []uint64{^uint64(0), 0}
	}
	var evals, nontriv int64
	distinct := map[[3]int]bool{}
	for _, fill := range fills {
		for L := 0; L <= maxL; L += 2 {
			for _, k := range ks {
				for p := 0; p <= L/2; p++ {
					if k == 0 && p > 0 {
						continue // no key is < 0
					}
					want := int16(-1)
					for tail := 0; tail < 16; tail++ {
						if k == 0 && tail != 15 {
							continue // every slot is >= 0
						}
						c := c20Case{L: L, P: p, K: k, Tail: tail, Fill: fill}
						_, xs := c20Build(c)
						ref := simd.Naive(xs, k)
						if int(ref) != p {
							ev.Fatalf("C20 generator bug: Naive=%d p=%d case=%+v", ref, p, c)
						}
						got := simd.Search(xs, k)
						evals++
						if want == -1 {
							want = got
						}
						if r.NumViolations() > 200 {
							goto done // enough evidence; do not keep running a broken kernel
						}
						if got != ref || got != want {
							key := "C20/other"
							if int(got) > L/2 {
								// classifier of finding F1: the kernel reports a "match" at a key slot at or
								// past len(xs) (it tests 4 key slots per iteration and never clamps).
								key = "C20/match-reported-past-len"
							}
							r.Violation(key, fmt.Sprintf("simd.Search(len=%d,k=%d)=%d, Naive=%d, first tail pattern gave %d (first match %d, tail pattern %04b)", L, k, got, ref, want, p, tail), c)
						}
						if L > 0 {
							nontriv++
							distinct[[3]int{L, p, tail}] = true
						}
					}
				}
			}
		}
	}
done:
	// the empty input in its three shapes: nil, empty with a readable base (covered above), and
	// empty with a base that must not be touched (first byte of an inaccessible page)
	guard := c20GuardPage()
	for _, k := range ks {
		for name, xs := range map[string][]uint64{"nil": nil, "empty-at-inaccessible-page": guard} {
			func() {
				defer func() {
					if rec := recover(); rec != nil {
						r.Violation("C20/empty-slice-faults", fmt.Sprintf("simd.Search(%s slice, k=%d) faulted: %v", name, k, rec), map[string]any{"slice": name, "k": k})
					}
				}()
				if xs == nil && name != "nil" {
					return
				}
				evals++
				if got := simd.Search(xs, k); got != 0 {
					r.Violation("C20/empty-slice-wrong-result", fmt.Sprintf("simd.Search(%s slice, k=%d)=%d, want 0", name, k, got), map[string]any{"slice": name, "k": k})
				}
			}()
		}
	}
	r.Sample(c20Case{L: 2, P: 1, K: 50, Tail: 0b0001, Fill: ^uint64(0)})
	r.Sample(c20Case{L: 14, P: 7, K: 1 << 63, Tail: 0b0101, Fill: ^uint64(0)})
	r.Cov["evaluations"] = evals
	r.Cov["distinct_nontrivial"] = len(distinct)
	r.Cov["rule"] = fmt.Sprintf("every even len 0..%d x every first-match position 0..len/2 x k in %v x all 16 {<k,>=k} patterns of the 4 key slots past the slice (distinct = (len,pos,tail) triples with len>0); oracle: Search == Naive and identical across tail patterns", maxL, ks)
	r.Cov["exhaustive"] = true
	r.Assume = []string{"the kernel only compares keys with k (>= unsigned), so {k-1,k}-valued keys represent all contents", "amd64 assembly kernel is what runs on this machine"}
}

// c20GuardPage returns an EMPTY []uint64 whose base pointer is the first byte of a PROT_NONE
// page (nil if the mapping cannot be made): reading even one word from it faults.
func c20GuardPage() []uint64 {
	ps := syscall.Getpagesize()
	b, err := syscall.Mmap(-1, 0, 2*ps, syscall.PROT_READ|syscall.PROT_WRITE, syscall.MAP_ANON|syscall.MAP_PRIVATE)
	if err != nil {
		return nil
	}
	if err := syscall.Mprotect(b[ps:], syscall.PROT_NONE); err != nil {
		return nil
	}
	// build the header by hand: slicing to zero capacity would not advance the base pointer
	var xs []uint64
	hdr := (*struct {
		p    unsafe.Pointer
		l, c int
	})(unsafe.Pointer(&xs))
	hdr.p = unsafe.Add(unsafe.Pointer(&b[0]), ps)
	return xs
}
