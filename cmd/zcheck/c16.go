package main

// C16 — a persistent z.Tree reopens to the same contents.
//
// (1) The C10 search (engine in c10.go) on file-backed trees with the extra event Reopen
//     (t.Close() + NewTreePersistent on the same path) enabled in every state. Oracle at Reopen:
//     nextPage, freePage and Stats() except Allocated are equal before/after, and the contents
//     (Get over all tracked keys + IterateKV) still equal the model, which the state agreed with
//     before the Reopen. The reopened tree is a state like any other (its key contains the page
//     bytes and everything reinit reconstructed), so the search continues from it. Map failures of
//     operations other than Reopen are C16 violations only if they disappear when the Reopen
//     events are removed from the history; otherwise they are C10's business and only counted.
// (2) Long histories: fills of tens of thousands of keys with DeleteBelow in between, closed and
//     reopened at EVERY point where nextPage or freePage changed — once as a single history that
//     keeps working on the reopened tree (compared at every such point with the same history run
//     without any Reopen), once with a single Reopen per history for every such point.

import (
	"fmt"
	"os"
	"time"

	"github.com/dgraph-io/ristretto/v2/z"

	"verif/internal/ev"
)

func init() { register("C16", "model_checking", c16) }

// tdigest summarises everything C16 compares across a Reopen / between two runs.
type tdigest struct {
	count, sum         uint64 // IterateKV: number of pairs, order-independent checksum of the pairs
	nextPage, freePage uint64
	leafKeys, freeCnt  int
	numPages, bytes    int
}

func kvmix(k, v uint64) uint64 {
	x := (k ^ 0x9E3779B97F4A7C15) * 0xff51afd7ed558ccd
	x ^= x >> 31
	x = (x ^ v) * 0xc4ceb9fe1a85ec53
	return x ^ x>>29
}

func (e *teng) digest() (d tdigest, pan any) {
	defer func() {
		if r := recover(); r != nil {
			pan = r
		}
	}()
	e.t.IterateKV(func(k, v uint64) uint64 {
		d.count++
		d.sum += kvmix(k, v)
		return 0
	})
	m := z.VerifTreeMetaOf(e.t)
	st := e.t.Stats()
	d.nextPage, d.freePage = m.NextPage, m.FreePage
	d.leafKeys, d.freeCnt, d.numPages, d.bytes = st.NumLeafKeys, st.NumPagesFree, st.NumPages, st.Bytes
	return d, nil
}

func (e *teng) applyPlain(op top) (pan any) {
	defer func() {
		if r := recover(); r != nil {
			pan = r
		}
	}()
	switch op.kind {
	case tSet:
		e.t.Set(op.k, op.v)
	case tDel:
		e.t.DeleteBelow(op.v)
	case tIter:
		e.curFn = op.fn
		e.t.IterateKV(func(k, v uint64) uint64 { return rewriteFn(op.fn, k, v) })
	}
	return nil
}

// reopenJudged performs the Reopen event with recover; returns classes (nil = fine) and a description.
func (e *teng) reopenJudged(keys []uint64) (classes []string, what string) {
	pre, pan := e.digest()
	if pan != nil {
		return nil, "" // not a Reopen matter (left to C10); caller stops
	}
	var preGets []uint64
	for _, k := range keys {
		preGets = append(preGets, e.t.Get(k))
	}
	var mism []tmis
	func() {
		defer func() {
			if r := recover(); r != nil {
				pan = r
			}
		}()
		e.mism = e.mism[:0]
		e.reopen()
		mism = append(mism, e.mism...)
	}()
	if pan != nil {
		e.reopenPanics++
		return e.classify(top{kind: tReopen}, nil, nil, pan, nil),
			fmt.Sprintf("NewTreePersistent panics: %.200v (nextPage=%d, page size %d, file size %d)", pan, e.reopenPre.NextPage, e.cfg.PageSize, e.reopenFileSize)
	}
	post, pan := e.digest()
	if pan != nil {
		return []string{"C16/reopen-changes-contents"}, fmt.Sprintf("IterateKV on the reopened tree panics: %.200v", pan)
	}
	if post.count != pre.count || post.sum != pre.sum {
		mism = append(mism, tmis{kind: misReopen, field: "IterateKV pair count", got: post.count, want: pre.count})
	}
	func() {
		defer func() {
			if r := recover(); r != nil {
				pan = r
			}
		}()
		for i, k := range keys {
			if got := e.t.Get(k); got != preGets[i] {
				mism = append(mism, tmis{kind: misGet, k: k, got: got, want: preGets[i]})
				if len(mism) > 8 {
					break
				}
			}
		}
	}()
	if pan != nil {
		return []string{"C16/reopen-changes-contents"}, fmt.Sprintf("Get on the reopened tree panics: %.200v", pan)
	}
	if len(mism) == 0 {
		return nil, ""
	}
	set := map[string]bool{}
	for _, m := range mism {
		if m.kind == misReopen && m.field != "IterateKV pair count" {
			for _, c := range e.classify(top{kind: tReopen}, nil, nil, nil, []tmis{m}) {
				set[c] = true
			}
		} else {
			set["C16/reopen-changes-contents"] = true
		}
	}
	for c := range set {
		classes = append(classes, c)
	}
	return classes, misString(mism)
}

// c16Long runs one long history. Modes (l.Reopen):
//
//	every-change : Reopen after every operation that changed nextPage or freePage, continuing on the
//	               reopened tree; at each such point the tree is compared with the plain run.
//	each-single  : for every such point p separately: plain history up to p, one Reopen (runs mode at).
//	at           : plain history up to operation #ReopenAt, one Reopen.
func c16Long(l *tlong, dir string) *tres {
	res := newRes(l.Name)
	res.Long = true
	start := time.Now()
	defer func() { res.WallS = time.Since(start).Seconds() }()
	restore := z.VerifSetPageSize(l.PageSize)
	defer restore()
	cfg := &tcfg{Name: l.Name, PageSize: l.PageSize, Persistent: true}
	e := newEng("C16", cfg, res, dir)
	defer e.close()
	ops := l.ops()
	ops = ops[:len(ops)-4] // the tail (IterateKV, delete everything, 2 Sets) adds nothing for C16 but keep one DeleteBelow(all)
	ops = append(ops, top{kind: tDel, v: maxU}, top{kind: tSet, k: l.key(0), v: 7})
	allKeys := l.allKeys()
	sampleKeys := func(i int) []uint64 { // keys probed by Get around a Reopen: the most recent 48 + 16 spread ones
		var ks []uint64
		n := i + 1
		if n > l.N {
			n = l.N
		}
		for j := n - 1; j >= 0 && j >= n-48; j-- {
			ks = append(ks, l.key(j))
		}
		for j := 0; j < 16 && n > 0; j++ {
			ks = append(ks, l.key(j*n/16))
		}
		return append(ks, allKeys[l.N:]...)
	}
	viol := func(c string, i int, what string, at int) {
		res.viol(c, func() (string, any) {
			ll := *l
			if at >= 0 && ll.Reopen != "at" {
				ll.Reopen, ll.ReopenAt = "at", at
				ll.Name += fmt.Sprintf("@%d", at)
			}
			return fmt.Sprintf("long history %s (page size %d, %d keys %s, values %s, DeleteBelow every %d, reopen %s): at operation #%d: %s",
				ll.Name, l.PageSize, l.N, l.Pattern, l.Vals, l.DelEvery, ll.Reopen, i, what), treplay{Mode: "long", PageSize: l.PageSize, Persistent: true, Long: &ll}
		})
	}

	// pass 1: the plain run (no Reopen): change points and digests
	type cp struct {
		i int
		d tdigest
	}
	var cps []cp
	runPlain := func(upTo int, record bool) (ok bool) {
		if pan := e.fresh(); pan != nil {
			res.Counters["failures_without_any_reopen_in_history_left_to_C10"]++
			return false
		}
		res.Replays++
		m := z.VerifTreeMetaOf(e.t)
		ln, lf, lb := m.NextPage, m.FreePage, m.BufLen
		for i := 0; i <= upTo && i < len(ops); i++ {
			if pan := e.applyPlain(ops[i]); pan != nil {
				res.Counters["failures_without_any_reopen_in_history_left_to_C10"]++
				res.Note += fmt.Sprintf("plain run panics at operation #%d %s: %.120v. ", i, ops[i], pan)
				return false
			}
			res.Transitions++
			if !record {
				continue
			}
			m = z.VerifTreeMetaOf(e.t)
			if m.BufLen != lb {
				lb = m.BufLen
				res.Counters["file_growth_events_in_the_run_without_reopen"]++
			}
			if m.NextPage != ln || m.FreePage != lf || i == len(ops)-1 {
				ln, lf = m.NextPage, m.FreePage
				d, pan := e.digest()
				if pan != nil {
					res.Counters["failures_without_any_reopen_in_history_left_to_C10"]++
					return false
				}
				cps = append(cps, cp{i, d})
			}
		}
		return true
	}
	single := func(at int) bool {
		if !runPlain(at, false) {
			return false
		}
		classes, what := e.reopenJudged(sampleKeys(at))
		res.Counters["reopen_events"]++
		for _, c := range classes {
			viol(c, at, "after "+ops[at].String()+": "+what, at)
		}
		return len(classes) == 0
	}
	switch l.Reopen {
	case "at":
		single(l.ReopenAt)
		res.States, res.Depth = int64(l.ReopenAt)+2, l.ReopenAt+2
		return res
	}
	if !runPlain(len(ops)-1, true) {
		res.Exhaustive = false
		return res
	}
	res.Counters["structural_change_points"] = int64(len(cps))
	if l.Reopen == "each-single" {
		for _, c := range cps {
			if pastTreeDeadline() {
				res.Exhaustive = false
				res.Note += fmt.Sprintf("tier deadline reached before the change point at operation #%d. ", c.i)
				break
			}
			single(c.i)
			if e.reopenPanics > 40 {
				res.Exhaustive = false
				res.Note += "more than 40 panics inside NewTreePersistent: stopped. "
				break
			}
		}
		res.States, res.Depth = int64(len(ops))+1, len(ops)+1
		return res
	}
	// pass 2: Reopen at every change point, continuing on the reopened tree
	if pan := e.fresh(); pan != nil {
		return res
	}
	res.Replays++
	ci := 0
	for i, op := range ops {
		if pan := e.applyPlain(op); pan != nil {
			viol("C16/map-misbehaves-after-reopen", i, fmt.Sprintf("%s panics (%.160v) although the same history without the earlier Reopen events runs through", op, pan), -1)
			return res
		}
		res.Transitions++
		if ci < len(cps) && cps[ci].i == i {
			if pastTreeDeadline() {
				res.Exhaustive = false
				res.Note += fmt.Sprintf("tier deadline reached at operation #%d of %d (%d Reopen events done). ", i, len(ops), ci)
				return res
			}
			d, pan := e.digest()
			if pan != nil || d != cps[ci].d {
				viol("C16/map-misbehaves-after-reopen", i, fmt.Sprintf("after %s the tree that was reopened at every earlier structural change differs from the same history without Reopen: %+v vs %+v (panic: %v)", op, d, cps[ci].d, pan), -1)
				return res
			}
			ci++
			classes, what := e.reopenJudged(sampleKeys(i))
			res.Counters["reopen_events"]++
			if d.freePage != 0 {
				res.Counters["reopen_events_with_free_pages"]++
			}
			if d.freeCnt >= 2 {
				res.Counters["reopen_events_with_2+_free_pages"]++
			}
			if int64(d.numPages) > res.Counters["max_pages"] {
				res.Counters["max_pages"] = int64(d.numPages)
			}
			if int64(d.freeCnt) > res.Counters["max_free_pages"] {
				res.Counters["max_free_pages"] = int64(d.freeCnt)
			}
			for _, c := range classes {
				viol(c, i, "after "+op.String()+": "+what, i)
			}
			if len(classes) > 0 {
				res.Note += fmt.Sprintf("stopped after operation #%d of %d. ", i, len(ops))
				return res
			}
		}
	}
	// end: every key ever set reads the same as in a plain run (digest already equal); spot-check by Get
	res.States, res.Depth = int64(len(ops))+1, len(ops)+len(cps)
	return res
}

func c16Jobs(tier, dir string) (jobs []*tjob) {
	th := tier == "thorough"
	pick := func(q, t int) int {
		if th {
			return t
		}
		return q
	}
	bud := func(q, t float64) float64 {
		if th {
			return t
		}
		return q
	}
	add := func(c *tcfg) {
		c.Persistent, c.Reopen, c.Reset = true, true, false
		if c.ValidateEvery == 0 {
			c.ValidateEvery = 16
		}
		jobs = append(jobs, &tjob{Prop: "C16", Cfg: c, Dir: dir})
	}
	add(&tcfg{Name: "file-ps80-full-alphabet", PageSize: 80, Keys: c10KeysFull, Vals: c10ValsFull, TS: c10TSFull,
		Iters: c10Iters, Depth: pick(3, 4), BudgetS: bud(5, 400)})
	add(&tcfg{Name: "file-ps80-deep", PageSize: 80, Keys: []uint64{1, 2, 3, 4, 5, 6, 7, maxU - 1}, Vals: []uint64{1, 3}, TS: []uint64{2, 4},
		Iters: []string{"all:3"}, Depth: pick(5, 8), BudgetS: bud(9, 500)})
	add(&tcfg{Name: "file-ps80-all-insertion-orders", PageSize: 80, Keys: []uint64{1, 2, 3, 4, 5, 6, 7, 8}, Vals: []uint64{1, 3},
		TS: []uint64{2, 4}, InsertOnly: true, Depth: pick(5, 8), BudgetS: bud(7, 500)})
	add(&tcfg{Name: "file-ps80-three-levels", PageSize: 80, Prefix: seqPrefix(20, 10, []uint64{2, 1, 3}),
		Keys: []uint64{9, 10, 11, 19, 20, 21, 41, 100, 101, 199, 200, 201, maxU - 1}, Vals: []uint64{1, 3}, TS: []uint64{2, 3, 4},
		Depth: pick(3, 4), BudgetS: bud(3, 400)})
	// several leaves with uniform values per leaf, so that DeleteBelow recycles 1..4 pages at once and the
	// free list is rebuilt by Reopen in many shapes
	add(&tcfg{Name: "file-ps80-free-lists", PageSize: 80, Prefix: seqPrefix(14, 10, []uint64{3, 1, 1, 5, 5}),
		Keys: []uint64{5, 25, 45, 65, 85, 145, maxU - 1}, Vals: []uint64{1, 5}, TS: []uint64{2, 4, 6},
		Depth: pick(4, 6), BudgetS: bud(4, 500)})
	add(&tcfg{Name: "file-ps96-deep", PageSize: 96, Keys: []uint64{1, 2, 3, 4, 5, 6, 7, 8, maxU - 1}, Vals: []uint64{1, 3}, TS: []uint64{2, 4},
		Depth: pick(4, 8), BudgetS: bud(4, 500)})
	n := pick(33000, 40000)
	long := func(ps int, pat, vs string, del int, mode string) {
		jobs = append(jobs, &tjob{Prop: "C16", Dir: dir, Long: &tlong{Name: fmt.Sprintf("long-file-ps%d-%s-%s-%dkeys-del%d-%s", ps, pat, vs, n+1, del, mode),
			PageSize: ps, Persistent: true, Pattern: pat, N: n + 1, Vals: vs, DelEvery: del, Reopen: mode}})
	}
	long(4096, "seq", "index", 0, "every-change")
	long(4096, "seq", "index", n/3, "every-change")
	long(4096, "rev", "index", 0, "every-change")
	// two growths of the file (1 MiB -> 2 MiB+8 at page 255, -> 4 MiB+ at page 512) with a Reopen at every
	// structural change in between: what the first reopen reconstructs about the buffer (its size) only
	// matters at the SECOND growth
	n2 := n
	n = 70000
	long(4096, "seq", "index", 0, "every-change")
	n = n2
	if !th {
		// quick: the three cheap 4 KiB-page histories run before the searches (they need ~1 s each)
		jobs = append(jobs[len(jobs)-4:], jobs[:len(jobs)-4]...)
		n = 6000
		long(256, "seq", "index", n/3, "every-change")
	}
	if th {
		long(4096, "seq", "index", 0, "each-single")
		long(256, "seq", "index", n/3, "every-change")
		long(4096, "seq", "index", n/3, "each-single")
		long(4096, "rev", "index", 0, "each-single")
		long(4096, "rev", "index", n/3, "every-change")
		long(4096, "stride", "hash", 0, "every-change")
		long(4096, "stride", "hash", n/3, "every-change")
		long(4096, "stride", "hash", n/3, "each-single")
		long(4096, "high", "index", n/3, "every-change")
		long(256, "seq", "index", 0, "every-change")
		long(256, "rev", "index", n/3, "every-change")
		long(256, "stride", "hash", n/3, "every-change")
		long(256, "high", "hash", n/3, "every-change")
		n = 70000
		long(4096, "rev", "index", 0, "every-change")
		long(4096, "seq", "index", n/3, "every-change")
		long(256, "seq", "index", 0, "every-change")
		n = 16000
		long(80, "seq", "index", n/3, "every-change")
	}
	return jobs
}

func c16(tier string, r *ev.Run, replay string) {
	treeWorkerMain()
	if replay != "" {
		treeReplay("C16", r, replay)
		return
	}
	dir := treeWorkDir()
	defer os.RemoveAll(dir)
	jobs := c16Jobs(tier, dir)
	par, limit := 1, 38.0
	if tier == "thorough" {
		par, limit = 8, 560
	}
	for _, j := range jobs {
		j.Deadline = float64(time.Now().UnixNano())/1e9 + limit
	}
	results := runJobs(jobs, par, tier)
	publish(r, results)
	var reopens int64
	for _, res := range results {
		reopens += res.Counters["reopen_events"]
	}
	r.Cov["reopen_events"] = reopens
	r.Cov["page_sizes"] = "search: 80, 96; long histories: 4096, 256 (+80 thorough)"
	ex := r.Cov["details"].(map[string]any)
	ex["alphabet"] = "Set(k,v), DeleteBelow(ts), IterateKV(rewrite), Reopen (= Close + NewTreePersistent on the same path) enabled in every state; Reset is excluded (the property quantifies over Set/DeleteBelow histories)"
	ex["oracle"] = "at Reopen: nextPage, freePage, Stats() except Allocated equal before/after; Get of every tracked key and IterateKV still equal the model the state agreed with before; no panic / error. Other operations: the C10 oracle, judged for C16 only when the failure disappears once the Reopen events are removed from the history. Long histories: additionally the run that reopens at every structural change is compared (IterateKV count+checksum, nextPage, freePage, Stats) at every such point with the same history run without Reopen"
	ex["state_key"] = "bytes of pages 1..nextPage-1 + nextPage + freePage + private stats + len(data) + mapped file size"
	r.Assume = []string{
		"clean close only (Close msyncs and unmaps); one tree is open at a time, files live under the work dir and are removed",
		"successors are produced by writing the exact white-box state of the expanded state back into the one live mapped tree; every 16th expanded state's history is re-executed on a new file and must reach the same state key; the first 16 violations per key are re-executed from scratch on a new file before being reported",
		"a tree whose reopened state is byte- and field-identical to the state before Reopen has, by determinism, the same future as that state, so it is not expanded twice",
		"map failures that also occur without any Reopen in the history (finding F2 while it is unfixed) are C10 violations and only counted here",
		"around each Reopen of a long history Get is compared for the 48 most recently set keys, 16 spread keys and 4 never-set keys; complete contents are compared through IterateKV (pair count + order-independent checksum)",
	}
}
