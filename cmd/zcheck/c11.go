package main

import (
	"bytes"
	"crypto/sha1"
	"encoding/binary"
	"encoding/json"
	"fmt"
	"os"
	"path/filepath"
	"runtime"
	"runtime/debug"
	"sort"
	"strings"
	"sync"
	"time"

	"github.com/dgraph-io/ristretto/v2/z"

	"verif/internal/ev"
)

// C11 — z.Buffer returns what was written, in order, and sorts correctly.
//
// Part 1 (BFS): explicit-state breadth-first search over operation histories on REAL z.Buffer
// objects, one search per (mode, configuration). A state is the shortest history reaching it; a
// successor is built by replaying that history on a fresh buffer plus one event. The reference
// model is a []byte (byte mode) or a [][]byte (slice mode); it is compared with the buffer after
// every transition through Bytes / LenNoPadding (byte mode) and SliceIterate / SliceOffsets + Slice
// (slice mode). The de-duplication key is (bufType, curSz, offset, padding, len(buf), epoch,
// sha1(Bytes())): everything the implementation can branch on plus the oracle's own bookkeeping.
// Fill bytes are a non-zero pseudo-random function of (epoch = number of Resets so far, position in
// the content), so a byte that is lost, shifted, duplicated or left over from before a Reset differs
// from what the model expects, while two histories that wrote the same number of bytes into a
// buffer of the same capacity merge into one state (which is what makes depth 6..8 exhaustive).
//
// Part 2 (sort after state): every slice-mode state of depth <= 5 is rebuilt and sorted with each
// comparison function; in the primary configuration additionally with EVERY assignment of keys
// {0,1,2} to the first bytes of its non-empty slices.
//
// Part 3 (chunk family): SortSlice / SortSliceBetween around the 1024-slice chunking of the sorter.
//
// What is deliberately NOT judged (see Assume): SliceOffsets on an empty buffer returns one offset;
// entries of SliceOffsets that denote zero-length slices (the property speaks of the non-empty
// slices only, so both sides are filtered); the capacity (curSz) growing past WithMaxSize — only
// the refusal of the write is judged; writes whose content would fit the limit but whose content
// plus the 8-byte start padding would not (the implementation refuses them; either outcome accepted).
func init() { register("C11", "model_checking", c11) }

// ---------------------------------------------------------------------------------------------
// cases (also the replay format)

type c11Cfg struct {
	Kind   string `json:"kind"` // calloc | mmap | automap
	Cap    int    `json:"capacity"`
	Thresh int    `json:"auto_mmap_threshold,omitempty"`
	MaxSz  int    `json:"max_size,omitempty"`
}

func (c c11Cfg) String() string {
	s := fmt.Sprintf("%s(cap=%d", c.Kind, c.Cap)
	if c.Kind == "automap" {
		s += fmt.Sprintf(",threshold=%d", c.Thresh)
	}
	if c.MaxSz > 0 {
		s += fmt.Sprintf(",max=%d", c.MaxSz)
	}
	return s + ")"
}

// c11Ev: Op is one of W (Write), A (Allocate+fill), AO (AllocateOffset+fill through Data),
// WS (WriteSlice), SA (SliceAllocate+fill), R (Reset).
type c11Ev struct {
	Op string `json:"op"`
	N  int    `json:"n"`
}

func (e c11Ev) String() string {
	if e.Op == "R" {
		return "Reset"
	}
	return fmt.Sprintf("%s(%d)", map[string]string{"W": "Write", "A": "Allocate", "AO": "AllocateOffset", "WS": "WriteSlice", "SA": "SliceAllocate"}[e.Op], e.N)
}

func c11HistString(h []c11Ev) string {
	var sb strings.Builder
	for i, e := range h {
		if i > 0 {
			sb.WriteByte(' ')
		}
		sb.WriteString(e.String())
	}
	return sb.String()
}

type c11Case struct {
	Kind string  `json:"kind"` // history | sort-after-history | chunk-sort
	Mode string  `json:"mode,omitempty"`
	Cfg  c11Cfg  `json:"cfg"`
	Hist []c11Ev `json:"history,omitempty"`
	// sort-after-history: comparison function and optional key override per history event (-1 = default)
	Less string `json:"less,omitempty"`
	Keys []int  `json:"keys,omitempty"`
	// chunk-sort: N slices, key of slice i = Pattern[i%len] if Pattern != nil, else A for i < Split, B after
	N       int    `json:"n,omitempty"`
	Pattern []int  `json:"pattern,omitempty"`
	Split   int    `json:"split,omitempty"`
	A       int    `json:"a,omitempty"`
	B       int    `json:"b,omitempty"`
	Payload string `json:"payload,omitempty"` // "0" | "1" | "9" | "mixed" (9,0,1 cycling)
	// SortSliceBetween over the slices with index in [Range[0], Range[1]) of the SliceOffsets walk
	Range *[2]int `json:"range,omitempty"`
}

type c11V struct {
	Key  string
	What string
}

func c11Viol(key, format string, a ...any) *c11V { return &c11V{key, fmt.Sprintf(format, a...)} }

// ---------------------------------------------------------------------------------------------
// helpers

var c11Work string // removed before a harness error exits

func c11Fatalf(format string, a ...any) {
	if c11Work != "" {
		os.RemoveAll(c11Work)
	}
	ev.Fatalf(format, a...)
}

func c11Guard(f func()) (pv any, panicked bool) {
	defer func() {
		if r := recover(); r != nil {
			pv, panicked = r, true
		}
	}()
	f()
	return nil, false
}

// c11Fill: non-zero fill byte for content position pos in epoch e.
func c11Fill(epoch, pos int) byte {
	x := uint32(pos)*2654435761 + uint32(epoch)*40503 + 12345
	x ^= x >> 15
	x *= 2246822519
	x ^= x >> 13
	return byte(1 + x%255)
}

var c11LessNames = []string{"bytewise", "reverse", "firstbyte", "length"}

func c11Less(name string) func(a, b []byte) bool {
	switch name {
	case "bytewise":
		return func(a, b []byte) bool { return bytes.Compare(a, b) < 0 }
	case "reverse":
		return func(a, b []byte) bool { return bytes.Compare(a, b) > 0 }
	case "firstbyte": // many ties; an empty slice sorts before everything else
		k := func(a []byte) int {
			if len(a) == 0 {
				return -1
			}
			return int(a[0])
		}
		return func(a, b []byte) bool { return k(a) < k(b) }
	case "length":
		return func(a, b []byte) bool { return len(a) < len(b) }
	}
	c11Fatalf("C11: unknown comparison function %q", name)
	return nil
}

func c11NonEmpty(l [][]byte) [][]byte {
	var out [][]byte
	for _, s := range l {
		if len(s) > 0 {
			out = append(out, s)
		}
	}
	return out
}

// c11FirstDiff returns -1 if the lists are equal, else the first differing index.
func c11FirstDiff(a, b [][]byte) int {
	for i := 0; i < len(a) && i < len(b); i++ {
		if !bytes.Equal(a[i], b[i]) {
			return i
		}
	}
	if len(a) != len(b) {
		if len(a) < len(b) {
			return len(a)
		}
		return len(b)
	}
	return -1
}

func c11Short(b []byte) string {
	if len(b) <= 12 {
		return fmt.Sprintf("%x", b)
	}
	return fmt.Sprintf("%x..(len %d)", b[:12], len(b))
}

func c11At(l [][]byte, i int) string {
	if i < len(l) {
		return c11Short(l[i])
	}
	return "<none>"
}

// ---------------------------------------------------------------------------------------------
// live object + reference model

type c11Obj struct {
	b      *z.Buffer
	mode   string
	cfg    c11Cfg
	epoch  int
	clen   int      // model: content length without padding (byte mode: len(bytes); slice mode: sum of 8+len)
	bytes  []byte   // byte-mode model
	slices [][]byte // slice-mode model: every slice written since the last Reset, empty ones included
	// outcome of the last apply
	refused bool
}

func c11Open(cfg c11Cfg, mode, dir string) (*c11Obj, *c11V) {
	o := &c11Obj{mode: mode, cfg: cfg}
	var err error
	pv, bad := c11Guard(func() {
		switch cfg.Kind {
		case "calloc":
			o.b = z.NewBuffer(cfg.Cap, "c11")
		case "mmap":
			o.b, err = z.NewBufferTmp(dir, cfg.Cap)
		case "automap":
			o.b = z.NewBuffer(cfg.Cap, "c11").WithAutoMmap(cfg.Thresh, dir)
		default:
			c11Fatalf("C11: bad cfg kind %q", cfg.Kind)
		}
		if err == nil && cfg.MaxSz > 0 {
			o.b = o.b.WithMaxSize(cfg.MaxSz)
		}
	})
	if bad {
		return nil, c11Viol("C11/panic-in-constructor", "constructing %v panicked: %v", cfg, pv)
	}
	if err != nil {
		c11Fatalf("C11: cannot create temp-file buffer in %s: %v", dir, err)
	}
	return o, nil
}

func (o *c11Obj) close() {
	if o == nil || o.b == nil {
		return
	}
	var err error
	pv, bad := c11Guard(func() { err = o.b.Release() })
	o.b = nil
	if bad {
		c11Fatalf("C11: Release panicked (cannot keep the work dir clean): %v", pv)
	}
	if err != nil {
		c11Fatalf("C11: Release failed: %v", err)
	}
}

// key: canonical state for de-duplication.
func (o *c11Obj) key() (k string, curSz int, bt int, v *c11V) {
	pv, bad := c11Guard(func() {
		t, cur, off, pad, bl := z.VerifBuffer(o.b)
		h := sha1.Sum(o.b.Bytes())
		curSz, bt = cur, int(t)
		k = fmt.Sprintf("%d/%d/%d/%d/%d/%d/%x/%x", t, cur, off, pad, bl, o.epoch, h[:12], z.VerifBufferExtraFP(o.b))
	})
	if bad {
		return "", 0, 0, c11Viol("C11/panic-in-bytes", "Bytes() panicked: %v", pv)
	}
	return
}

// payload builds what event number idx-in-epoch writes. keyOv >= 0 overrides the key byte.
func (o *c11Obj) payload(n, keyOv int) []byte {
	p := make([]byte, n)
	if o.mode == "bytes" {
		for j := range p {
			p[j] = c11Fill(o.epoch, o.clen+j)
		}
		return p
	}
	for j := range p {
		p[j] = c11Fill(o.epoch, o.clen+8+j)
	}
	if n > 0 {
		k := (len(o.slices)*2 + o.epoch) % 3
		if keyOv >= 0 {
			k = keyOv
		}
		p[0] = byte(1 + k)
	}
	return p
}

// apply performs one event on the real buffer, updates the model and (if check) compares.
func (o *c11Obj) apply(e c11Ev, keyOv int, check bool) *c11V {
	o.refused = false
	if e.Op == "R" {
		if pv, bad := c11Guard(func() { o.b.Reset() }); bad {
			return c11Viol("C11/panic-in-reset", "Reset panicked: %v", pv)
		}
		o.epoch++
		o.clen, o.bytes, o.slices = 0, o.bytes[:0], nil
		if check {
			return o.observe()
		}
		return nil
	}
	n := e.N
	need := n
	if o.mode == "slices" {
		need = 8 + n
	}
	data := o.payload(n, keyOv)
	var pad int
	var shape *c11V
	pv, panicked := c11Guard(func() {
		pad = o.b.StartOffset()
		switch e.Op {
		case "W":
			nn, err := o.b.Write(data)
			if nn != n || err != nil {
				shape = c11Viol("C11/write-return-value", "Write of %d bytes returned (%d, %v)", n, nn, err)
			}
		case "A":
			s := o.b.Allocate(n)
			if len(s) != n {
				shape = c11Viol("C11/allocate-wrong-length", "Allocate(%d) returned a slice of length %d", n, len(s))
			}
			copy(s, data)
		case "AO":
			off := o.b.AllocateOffset(n)
			d := o.b.Data(off)
			if len(d) < n {
				shape = c11Viol("C11/allocate-offset-out-of-capacity", "AllocateOffset(%d) returned offset %d with only %d bytes of capacity behind it", n, off, len(d))
			}
			copy(d[:min(n, len(d))], data)
		case "WS":
			o.b.WriteSlice(data)
		case "SA":
			s := o.b.SliceAllocate(n)
			if len(s) != n {
				shape = c11Viol("C11/allocate-wrong-length", "SliceAllocate(%d) returned a slice of length %d", n, len(s))
			}
			copy(s, data)
		default:
			c11Fatalf("C11: bad op %q", e.Op)
		}
	})
	after := o.clen + need
	mx := o.cfg.MaxSz
	mustPanic := mx > 0 && after > mx
	mustNot := mx == 0 || after+pad <= mx
	if panicked {
		if mustNot {
			key := "C11/unexpected-panic-in-" + e.Op
			if strings.Contains(fmt.Sprint(pv), "max size exceeded") {
				key = "C11/maxsize-refuses-write-within-limit"
			}
			lim := "no WithMaxSize"
			if mx > 0 {
				lim = fmt.Sprintf("WithMaxSize(%d), %d bytes of start padding", mx, pad)
			}
			return c11Viol(key, "%v with %d content bytes present (%s) panicked: %v", e, o.clen, lim, pv)
		}
		// a refusal: contents must be unchanged
		o.refused = true
		if v := o.observe(); v != nil {
			v.Key = "C11/refused-write-changed-contents"
			v.What = fmt.Sprintf("after the refused %v (limit %d): %s", e, mx, v.What)
			return v
		}
		return nil
	}
	if shape != nil {
		return shape
	}
	if mustPanic {
		return c11Viol("C11/maxsize-not-enforced", "%v with %d content bytes present did not panic although the content would be %d > WithMaxSize(%d)", e, o.clen, after, mx)
	}
	o.clen = after
	if o.mode == "bytes" {
		o.bytes = append(o.bytes, data...)
	} else {
		o.slices = append(o.slices, data)
	}
	if check {
		return o.observe()
	}
	return nil
}

// walk returns the offsets reported by SliceOffsets and a copy of Slice at each of them; on a buffer
// without content it returns nothing (the one offset SliceOffsets reports there is a documented quirk).
func (o *c11Obj) walk() (offs []int, sl [][]byte, v *c11V) {
	pv, bad := c11Guard(func() {
		if o.b.LenNoPadding() == 0 {
			return
		}
		offs = o.b.SliceOffsets()
		sl = make([][]byte, len(offs))
		for i, off := range offs {
			s, _ := o.b.Slice(off)
			sl[i] = append([]byte{}, s...)
		}
	})
	if bad {
		return nil, nil, c11Viol("C11/panic-in-slice-walk", "SliceOffsets/Slice panicked: %v", pv)
	}
	return
}

func (o *c11Obj) iterate() (sl [][]byte, v *c11V) {
	var err error
	pv, bad := c11Guard(func() {
		err = o.b.SliceIterate(func(s []byte) error {
			sl = append(sl, append([]byte{}, s...))
			return nil
		})
	})
	if bad {
		return nil, c11Viol("C11/panic-in-slice-iterate", "SliceIterate panicked: %v", pv)
	}
	if err != nil {
		return nil, c11Viol("C11/slice-iterate-error", "SliceIterate returned %v although the callback never fails", err)
	}
	return sl, nil
}

// observe compares the buffer with the model.
func (o *c11Obj) observe() *c11V {
	if o.mode == "bytes" {
		var got []byte
		var ln int
		pv, bad := c11Guard(func() {
			got = append([]byte{}, o.b.Bytes()...)
			ln = o.b.LenNoPadding()
		})
		if bad {
			return c11Viol("C11/panic-in-bytes", "Bytes/LenNoPadding panicked: %v", pv)
		}
		if ln != len(o.bytes) {
			return c11Viol("C11/len-mismatch", "LenNoPadding() = %d, %d bytes were written", ln, len(o.bytes))
		}
		if !bytes.Equal(got, o.bytes) {
			i := 0
			for i < len(got) && i < len(o.bytes) && got[i] == o.bytes[i] {
				i++
			}
			g, w := -1, -1
			if i < len(got) {
				g = int(got[i])
			}
			if i < len(o.bytes) {
				w = int(o.bytes[i])
			}
			return c11Viol("C11/bytes-mismatch", "Bytes() has %d bytes, %d were written; first difference at content position %d: got %d want %d", len(got), len(o.bytes), i, g, w)
		}
		return nil
	}
	want := c11NonEmpty(o.slices)
	it, v := o.iterate()
	if v != nil {
		return v
	}
	if d := c11FirstDiff(it, want); d >= 0 {
		return c11Viol("C11/iterate-mismatch", "SliceIterate yields %d slices, %d non-empty slices were written; first difference at #%d: got %s want %s", len(it), len(want), d, c11At(it, d), c11At(want, d))
	}
	_, sl, v := o.walk()
	if v != nil {
		return v
	}
	sl = c11NonEmpty(sl)
	if d := c11FirstDiff(sl, want); d >= 0 {
		return c11Viol("C11/slice-offsets-mismatch", "Slice over SliceOffsets yields %d non-empty slices, %d were written; first difference at #%d: got %s want %s", len(sl), len(want), d, c11At(sl, d), c11At(want, d))
	}
	return nil
}

// checkSort sorts the (slice-mode) buffer and judges the result. rng == nil: SortSlice.
func (o *c11Obj) checkSort(lessName string, rng *[2]int) *c11V {
	less := c11Less(lessName)
	offsB, slB, v := o.walk()
	if v != nil {
		return v
	}
	if d := c11FirstDiff(c11NonEmpty(slB), c11NonEmpty(o.slices)); d >= 0 {
		return c11Viol("C11/slice-offsets-mismatch", "before sorting: Slice over SliceOffsets differs from what was written at non-empty slice #%d", d)
	}
	lo, hi := 0, len(slB)
	var bytesB, bytesA []byte
	var pad, start, end int
	call := "SortSlice"
	pv, bad := c11Guard(func() {
		bytesB = append([]byte{}, o.b.Bytes()...)
		pad = o.b.StartOffset()
		start, end = pad, o.b.LenWithPadding()
		if rng != nil {
			lo, hi = rng[0], rng[1]
			if lo < 0 || hi > len(offsB) || lo >= hi {
				c11Fatalf("C11: bad range %v for %d offsets", *rng, len(offsB))
			}
			start = offsB[lo]
			if hi < len(offsB) {
				end = offsB[hi]
			}
			call = fmt.Sprintf("SortSliceBetween(%d,%d) [slices %d..%d of %d]", start, end, lo, hi, len(offsB))
			o.b.SortSliceBetween(start, end, less)
		} else {
			o.b.SortSlice(less)
		}
		bytesA = append([]byte{}, o.b.Bytes()...)
	})
	if bad {
		return c11Viol("C11/panic-in-sort", "%s with %s panicked: %v", call, lessName, pv)
	}
	if len(bytesA) != len(bytesB) {
		return c11Viol("C11/sort-changed-length", "%s with %s changed the content length from %d to %d", call, lessName, len(bytesB), len(bytesA))
	}
	if len(bytesB) == 0 {
		return o.observe()
	}
	if !bytes.Equal(bytesA[:start-pad], bytesB[:start-pad]) || !bytes.Equal(bytesA[end-pad:], bytesB[end-pad:]) {
		return c11Viol("C11/sort-between-touched-outside-range", "%s with %s changed bytes outside the range", call, lessName)
	}
	_, slA, v := o.walk()
	if v != nil {
		v.What = "after " + call + ": " + v.What
		return v
	}
	if len(slA) != len(slB) {
		return c11Viol("C11/sort-not-permutation", "%s with %s: %d slices before, %d after", call, lessName, len(slB), len(slA))
	}
	cnt := make(map[string]int, hi-lo)
	for i := lo; i < hi; i++ {
		cnt[string(slB[i])]++
	}
	for i := lo; i < hi; i++ {
		k := string(slA[i])
		if cnt[k] == 0 {
			return c11Viol("C11/sort-not-permutation", "%s with %s: result slice #%d (%s) is not among (or occurs more often than in) the input slices", call, lessName, i, c11Short(slA[i]))
		}
		cnt[k]--
	}
	for i := lo; i+1 < hi; i++ {
		if less(slA[i+1], slA[i]) {
			return c11Viol("C11/sort-out-of-order", "%s with %s: result slices #%d (%s) and #%d (%s) are out of order", call, lessName, i, c11Short(slA[i]), i+1, c11Short(slA[i+1]))
		}
	}
	it, v := o.iterate()
	if v != nil {
		return v
	}
	if d := c11FirstDiff(it, c11NonEmpty(slA)); d >= 0 {
		return c11Viol("C11/iterate-mismatch", "after %s: SliceIterate and Slice over SliceOffsets disagree at non-empty slice #%d", call, d)
	}
	return nil
}

// ---------------------------------------------------------------------------------------------
// running one case (used by the explorers and by --replay)

// c11RunHistory replays hist; only the last event is judged unless all is set. Returns the open
// object (caller closes) or a violation.
func c11RunHistory(cfg c11Cfg, mode string, hist []c11Ev, keys []int, all bool, dir string) (*c11Obj, *c11V) {
	o, v := c11Open(cfg, mode, dir)
	if v != nil {
		return nil, v
	}
	for i, e := range hist {
		kv := -1
		if i < len(keys) {
			kv = keys[i]
		}
		if v := o.apply(e, kv, all || i == len(hist)-1); v != nil {
			o.close()
			return nil, v
		}
	}
	return o, nil
}

func c11ChunkKey(c c11Case, i int) int {
	if len(c.Pattern) > 0 {
		return c.Pattern[i%len(c.Pattern)]
	}
	if i < c.Split {
		return c.A
	}
	return c.B
}

func c11ChunkLen(payload string, i int) int {
	switch payload {
	case "0":
		return 0
	case "1":
		return 1
	case "9":
		return 9
	case "mixed":
		return [3]int{9, 0, 1}[i%3]
	}
	c11Fatalf("C11: bad payload %q", payload)
	return 0
}

func c11RunCase(c c11Case, dir string) *c11V {
	switch c.Kind {
	case "history":
		o, v := c11RunHistory(c.Cfg, c.Mode, c.Hist, nil, true, dir)
		o.close()
		return v
	case "sort-after-history":
		o, v := c11RunHistory(c.Cfg, "slices", c.Hist, c.Keys, false, dir)
		if v != nil {
			return v
		}
		defer o.close()
		return o.checkSort(c.Less, c.Range)
	case "chunk-sort":
		o, v := c11Open(c.Cfg, "slices", dir)
		if v != nil {
			return v
		}
		defer o.close()
		o.slices = make([][]byte, 0, c.N)
		pv, bad := c11Guard(func() {
			for i := 0; i < c.N; i++ {
				p := make([]byte, c11ChunkLen(c.Payload, i))
				if len(p) > 0 {
					p[0] = byte(1 + c11ChunkKey(c, i))
				}
				if len(p) == 9 {
					binary.BigEndian.PutUint64(p[1:], uint64(i+1)*0x9E3779B97F4A7C15)
				}
				if i%2 == 0 {
					o.b.WriteSlice(p)
				} else {
					copy(o.b.SliceAllocate(len(p)), p)
				}
				o.slices = append(o.slices, p)
				o.clen += 8 + len(p)
			}
		})
		if bad {
			return c11Viol("C11/unexpected-panic-in-WS", "writing %d slices panicked: %v", c.N, pv)
		}
		// checkSort validates the walk against the model before sorting and SliceIterate after it
		return o.checkSort(c.Less, c.Range)
	}
	c11Fatalf("C11: bad case kind %q", c.Kind)
	return nil
}

// ---------------------------------------------------------------------------------------------
// explorers

type c11VRec struct {
	V    *c11V
	Case c11Case
}

type c11Res struct {
	Name        string  `json:"name"`
	Mode        string  `json:"mode,omitempty"`
	Depth       int     `json:"depth_bound,omitempty"`
	DepthDone   int     `json:"depth_completed,omitempty"`
	States      int64   `json:"states"`
	Transitions int64   `json:"transitions"`
	Traces      int64   `json:"traces"`
	NewPerDepth []int   `json:"new_states_per_depth,omitempty"`
	Grow        int64   `json:"transitions_that_grew_the_buffer,omitempty"`
	Switch      int64   `json:"transitions_that_switched_calloc_to_mmap,omitempty"`
	Refused     int64   `json:"writes_refused_by_max_size,omitempty"`
	SortStates  int64   `json:"states_sorted,omitempty"`
	Sorts       int64   `json:"sort_runs,omitempty"`
	Complete    bool    `json:"complete"`
	FilesLeft   int     `json:"temp_files_left"`
	WallS       float64 `json:"wall_s"`
	viols       []c11VRec
	samples     []c11Case
}

func c11Alphabet(mode string) []c11Ev {
	var a []c11Ev
	if mode == "bytes" {
		for _, n := range []int{0, 1, 7, 8, 55, 56, 57, 200} {
			for _, op := range []string{"W", "A", "AO"} {
				a = append(a, c11Ev{op, n})
			}
		}
	} else {
		for _, n := range []int{0, 1, 8, 100} {
			for _, op := range []string{"WS", "SA"} {
				a = append(a, c11Ev{op, n})
			}
		}
	}
	return append(a, c11Ev{"R", 0})
}

func c11CountFiles(dir string) int {
	es, _ := os.ReadDir(dir)
	return len(es)
}

type c11State struct {
	hist []c11Ev
	key  string
}

func c11BFS(mode string, cfg c11Cfg, depth, sortDepth, allKeysDepth int, dir string, deadline time.Time) (res c11Res) {
	debug.SetPanicOnFault(true)
	t0 := time.Now()
	res = c11Res{Name: mode + "/" + cfg.String(), Mode: mode, Depth: depth, Complete: true}
	_ = os.MkdirAll(dir, 0o755)
	defer func() {
		res.FilesLeft = c11CountFiles(dir)
		res.WallS = time.Since(t0).Seconds()
	}()
	fail := func(v *c11V, c c11Case) { res.viols = append(res.viols, c11VRec{v, c}) }
	alpha := c11Alphabet(mode)

	root, v := c11RunHistory(cfg, mode, nil, nil, true, dir)
	res.Traces++
	if v == nil {
		v = root.observe()
	}
	if v != nil {
		fail(v, c11Case{Kind: "history", Mode: mode, Cfg: cfg})
		root.close()
		return
	}
	rk, _, _, v := root.key()
	root.close()
	if v != nil {
		fail(v, c11Case{Kind: "history", Mode: mode, Cfg: cfg})
		return
	}
	seen := map[string]bool{rk: true}
	frontier := []c11State{{nil, rk}}
	res.States = 1
	res.NewPerDepth = []int{1}

	sortState := func(hist []c11Ev) {
		res.SortStates++
		run := func(less string, keys []int) {
			c := c11Case{Kind: "sort-after-history", Cfg: cfg, Hist: hist, Less: less, Keys: keys}
			res.Sorts++
			res.Traces++
			if v := c11RunCase(c, dir); v != nil {
				v.What = fmt.Sprintf("slices %v: history [%s] then sort by %s (key override %v): %s", cfg, c11HistString(hist), less, keys, v.What)
				fail(v, c)
			}
		}
		for _, less := range c11LessNames {
			run(less, nil)
		}
		if len(hist) > allKeysDepth {
			return
		}
		// every assignment of keys {0,1,2} to the non-empty slices written since the last Reset
		var pos []int
		for i, e := range hist {
			if e.Op == "R" {
				pos = pos[:0]
			} else if e.N > 0 {
				pos = append(pos, i)
			}
		}
		if len(pos) < 2 {
			return
		}
		total := 1
		for range pos {
			total *= 3
		}
		for a := 0; a < total; a++ {
			keys := make([]int, len(hist))
			for i := range keys {
				keys[i] = -1
			}
			x := a
			for _, p := range pos {
				keys[p] = x % 3
				x /= 3
			}
			for _, less := range c11LessNames {
				run(less, keys)
			}
		}
	}
	if mode == "slices" && sortDepth >= 0 {
		sortState(nil)
	}

	for d := 1; d <= depth; d++ {
		var next []c11State
		for _, st := range frontier {
			if time.Now().After(deadline) {
				res.Complete = false
				return
			}
			for _, e := range alpha {
				hist := append(append(make([]c11Ev, 0, len(st.hist)+1), st.hist...), e)
				c := c11Case{Kind: "history", Mode: mode, Cfg: cfg, Hist: hist}
				res.Transitions++
				res.Traces++
				// prefix (already judged when it was discovered) ...
				o, v := c11RunHistory(cfg, mode, st.hist, nil, false, dir)
				if v != nil {
					// the same history passed when it was discovered: the implementation does not behave
					// reproducibly on it, and this execution breaks the property
					v.What = fmt.Sprintf("%s %v: history [%s] (passed on an earlier execution, fails on re-execution): %s", mode, cfg, c11HistString(st.hist), v.What)
					fail(v, c11Case{Kind: "history", Mode: mode, Cfg: cfg, Hist: st.hist})
					break
				}
				pk, pcur, pbt, v := o.key()
				if v == nil && pk != st.key {
					if v = o.observe(); v == nil {
						c11Fatalf("C11: nondeterministic replay of %q on %v: key %q, recorded %q, contents agree with the model", c11HistString(st.hist), cfg, pk, st.key)
					}
				}
				if v != nil {
					v.What = fmt.Sprintf("%s %v: history [%s] (passed on an earlier execution, fails on re-execution): %s", mode, cfg, c11HistString(st.hist), v.What)
					fail(v, c11Case{Kind: "history", Mode: mode, Cfg: cfg, Hist: st.hist})
					o.close()
					break
				}
				// ... plus one judged event
				v = o.apply(e, -1, true)
				if v != nil {
					v.What = fmt.Sprintf("%s %v: history [%s]: %s", mode, cfg, c11HistString(hist), v.What)
					fail(v, c)
					o.close()
					continue
				}
				k, cur, bt, v := o.key()
				refused := o.refused
				o.close()
				if v != nil {
					fail(v, c)
					continue
				}
				if refused {
					res.Refused++
				}
				if cur != pcur {
					res.Grow++
				}
				if bt != pbt {
					res.Switch++
					if len(res.samples) < 1 {
						res.samples = append(res.samples, c)
					}
				}
				if seen[k] {
					continue
				}
				seen[k] = true
				res.States++
				next = append(next, c11State{hist, k})
				if mode == "slices" && d <= sortDepth {
					sortState(hist)
				}
			}
		}
		res.NewPerDepth = append(res.NewPerDepth, len(next))
		res.DepthDone = d
		frontier = next
		if len(frontier) == 0 {
			break
		}
	}
	if len(frontier) > 0 && len(res.samples) < 2 {
		res.samples = append(res.samples, c11Case{Kind: "history", Mode: mode, Cfg: cfg, Hist: frontier[len(frontier)/2].hist})
	}
	return
}

// c11Patterns: every distinct periodic key sequence over {0,1,2} with period <= maxPeriod.
func c11Patterns(maxPeriod int) [][]int {
	var out [][]int
	seenSeq := map[string]bool{}
	for p := 1; p <= maxPeriod; p++ {
		total := 1
		for i := 0; i < p; i++ {
			total *= 3
		}
		for a := 0; a < total; a++ {
			pat := make([]int, p)
			x := a
			for i := p - 1; i >= 0; i-- {
				pat[i] = x % 3
				x /= 3
			}
			var sb strings.Builder
			for i := 0; i < 12; i++ { // 12 = lcm(1..4)
				sb.WriteByte(byte('0' + pat[i%p]))
			}
			if !seenSeq[sb.String()] {
				seenSeq[sb.String()] = true
				out = append(out, pat)
			}
		}
	}
	return out
}

// c11Splits: every chunk boundary +-1 strictly inside (0, n).
func c11Splits(n int) []int {
	var out []int
	for c := 1024; c-1 < n; c += 1024 {
		for _, s := range []int{c - 1, c, c + 1} {
			if s > 0 && s < n {
				out = append(out, s)
			}
		}
	}
	return out
}

type c11ChunkPlan struct {
	Ns        []int
	MaxPeriod int
	Payloads  []string
	Less      []string
	// SortSliceBetween
	BNs        []int
	BMaxPeriod int
	BPayloads  []string
	BLess      []string
	// mmap-backed subset
	MNs []int
}

func c11KeyShapes(n, maxPeriod int) []c11Case {
	var out []c11Case
	for _, p := range c11Patterns(maxPeriod) {
		out = append(out, c11Case{Pattern: p})
	}
	for _, s := range c11Splits(n) {
		for a := 0; a < 3; a++ {
			for b := 0; b < 3; b++ {
				if a != b {
					out = append(out, c11Case{Split: s, A: a, B: b})
				}
			}
		}
	}
	return out
}

func c11Marks(n int) []int {
	m := map[int]bool{}
	for _, x := range []int{0, 1, 1023, 1025, n - 1, n} {
		if x >= 0 && x <= n {
			m[x] = true
		}
	}
	var out []int
	for x := range m {
		out = append(out, x)
	}
	sort.Ints(out)
	return out
}

// c11ChunkCases enumerates the chunking family; the cases are dealt to shards by index.
func c11ChunkCases(pl c11ChunkPlan) []c11Case {
	var out []c11Case
	calloc := c11Cfg{Kind: "calloc", Cap: 64}
	add := func(c c11Case, cfg c11Cfg, n int, payload, less string, rng *[2]int) {
		c.Kind, c.Cfg, c.N, c.Payload, c.Less, c.Range = "chunk-sort", cfg, n, payload, less, rng
		out = append(out, c)
	}
	for _, n := range pl.Ns {
		for _, less := range pl.Less {
			add(c11Case{Pattern: []int{0}}, calloc, n, "0", less, nil) // no payload: keys are meaningless
			for _, payload := range pl.Payloads {
				if payload == "0" {
					continue
				}
				for _, sh := range c11KeyShapes(n, pl.MaxPeriod) {
					add(sh, calloc, n, payload, less, nil)
				}
			}
		}
	}
	for _, n := range pl.BNs {
		marks := c11Marks(n)
		for i := 0; i < len(marks); i++ {
			for j := i + 1; j < len(marks); j++ {
				if marks[i] == 0 && marks[j] == n {
					continue // the whole buffer: covered above
				}
				for _, less := range pl.BLess {
					for _, payload := range pl.BPayloads {
						for _, sh := range c11KeyShapes(n, pl.BMaxPeriod) {
							add(sh, calloc, n, payload, less, &[2]int{marks[i], marks[j]})
						}
					}
				}
			}
		}
	}
	for _, n := range pl.MNs {
		for _, cfg := range []c11Cfg{{Kind: "mmap", Cap: 0}, {Kind: "automap", Cap: 0, Thresh: 300}} {
			for _, less := range c11LessNames {
				for _, sh := range c11KeyShapes(n, 2) {
					add(sh, cfg, n, "mixed", less, nil)
				}
			}
			add(c11Case{Pattern: []int{2, 1, 0}}, cfg, n, "9", "firstbyte", &[2]int{1, n - 1})
		}
	}
	return out
}

// c11LargeCases: histories that take a buffer well past 64 KiB, Reset it and fill it again past
// that size (twice, with other write sizes), observed after every step: whatever a Reset does to
// the backing memory or file (shrink, remap, keep) must leave capacity bookkeeping and mapping in
// step. One case per buffer kind x mode x write operation.
func c11LargeCases() []c11Case {
	var out []c11Case
	cfgs := []c11Cfg{{Kind: "mmap", Cap: 0}, {Kind: "automap", Cap: 0, Thresh: 100}, {Kind: "automap", Cap: 0, Thresh: 40000}, {Kind: "calloc", Cap: 64}}
	for _, cfg := range cfgs {
		for _, mo := range [][2]string{{"bytes", "W"}, {"bytes", "A"}, {"bytes", "AO"}, {"slices", "WS"}, {"slices", "SA"}} {
			var h []c11Ev
			rep := func(n, sz int) {
				for i := 0; i < n; i++ {
					h = append(h, c11Ev{Op: mo[1], N: sz})
				}
			}
			rep(9, 8000)
			h = append(h, c11Ev{Op: "R"})
			rep(9, 8000)
			h = append(h, c11Ev{Op: "R"})
			rep(3, 30000)
			h = append(h, c11Ev{Op: "R"})
			rep(20, 4000)
			out = append(out, c11Case{Kind: "history", Mode: mo[0], Cfg: cfg, Hist: h})
		}
	}
	return out
}

func c11ChunkShard(name string, cases []c11Case, dir string, deadline time.Time) (res c11Res) {
	debug.SetPanicOnFault(true)
	t0 := time.Now()
	res = c11Res{Name: name, Complete: true}
	_ = os.MkdirAll(dir, 0o755)
	for i, c := range cases {
		if i%16 == 0 && time.Now().After(deadline) {
			res.Complete = false
			break
		}
		res.Sorts++
		res.Traces++
		if v := c11RunCase(c, dir); v != nil {
			if c.Kind == "history" {
				v.What = fmt.Sprintf("large history on %v (%s mode): %s: %s", c.Cfg, c.Mode, c11HistString(c.Hist)[:60]+" ...", v.What)
				res.viols = append(res.viols, c11VRec{v, c})
				continue
			}
			keys := fmt.Sprintf("periodic keys %v", c.Pattern)
			if len(c.Pattern) == 0 {
				keys = fmt.Sprintf("key %d for the first %d slices then key %d", c.A, c.Split, c.B)
			}
			v.What = fmt.Sprintf("chunk family %v: %d slices, payload %s, %s, sort by %s: %s", c.Cfg, c.N, c.Payload, keys, c.Less, v.What)
			res.viols = append(res.viols, c11VRec{v, c})
		}
	}
	res.FilesLeft = c11CountFiles(dir)
	res.WallS = time.Since(t0).Seconds()
	return
}

// ---------------------------------------------------------------------------------------------

func c11Configs() []c11Cfg {
	var out []c11Cfg
	for _, mx := range []int{0, 256} {
		for _, c := range []int{0, 64, 100} {
			out = append(out, c11Cfg{Kind: "calloc", Cap: c, MaxSz: mx})
		}
	}
	for _, mx := range []int{0, 256} {
		for _, t := range []int{100, 300} {
			out = append(out, c11Cfg{Kind: "automap", Cap: 0, Thresh: t, MaxSz: mx})
		}
		out = append(out, c11Cfg{Kind: "mmap", Cap: 0, MaxSz: mx})
	}
	return out
}

// c11Depth: BFS depth bound per tier / mode / configuration. Buffers backed by a temp file cost a
// file creation, an mmap and at least one msync per replay, so they get a smaller bound.
func c11Depth(tier, mode string, cfg c11Cfg) int {
	file := cfg.Kind != "calloc"
	if tier == "quick" {
		if file {
			if mode == "slices" {
				return 4
			}
			return 3
		}
		return 6
	}
	if file {
		if mode == "bytes" {
			return 5
		}
		return 6
	}
	return 8
}

func c11(tier string, r *ev.Run, replay string) {
	debug.SetPanicOnFault(true)
	work := os.Getenv("VERIF_WORKDIR")
	var err error
	if work == "" {
		_ = os.MkdirAll(filepath.Join(ev.Root, ".build"), 0o755)
		work, err = os.MkdirTemp(filepath.Join(ev.Root, ".build"), "c11-")
	} else {
		work, err = os.MkdirTemp(work, "c11-")
	}
	if err != nil {
		c11Fatalf("C11: cannot create the work dir: %v", err)
	}
	c11Work = work
	defer os.RemoveAll(work)

	if replay != "" {
		b, err := os.ReadFile(replay)
		if err != nil {
			c11Fatalf("C11: %v", err)
		}
		var f struct {
			Key    string  `json:"key"`
			What   string  `json:"what"`
			Replay c11Case `json:"replay"`
		}
		if err := json.Unmarshal(b, &f); err != nil {
			c11Fatalf("C11: bad replay file: %v", err)
		}
		fmt.Printf("C11 replay: %s\n  recorded: [%s] %s\n", replay, f.Key, f.What)
		v := c11RunCase(f.Replay, work)
		if v == nil {
			fmt.Println("  now: the case passes")
		} else {
			fmt.Printf("  now: still fails: [%s] %s\n", v.Key, v.What)
			r.Violation(v.Key, v.What, f.Replay)
		}
		r.Cov["replayed"] = 1
		r.Cov["exhaustive"] = false
		os.RemoveAll(work)
		return
	}

	budget := 40 * time.Second
	workers := min(runtime.NumCPU(), 8) // the temp-file configurations are disk-bound: they overlap well with the in-memory searches
	sortDepth := 5
	allKeysDepth := 4 // primary configuration: every {0,1,2} key assignment for states up to this depth
	plan := c11ChunkPlan{
		Ns: []int{1, 2, 3, 1023, 1024, 1025, 2049, 3073}, MaxPeriod: 3,
		Payloads: []string{"0", "1", "9", "mixed"}, Less: c11LessNames,
		BNs: []int{3, 2049}, BMaxPeriod: 2, BPayloads: []string{"mixed"}, BLess: []string{"firstbyte", "bytewise"},
		MNs: []int{1025},
	}
	if tier == "thorough" {
		budget = 9 * time.Minute
		workers = min(runtime.NumCPU(), 16)
		allKeysDepth = 5
		plan.Ns = []int{1, 2, 3, 1023, 1024, 1025, 2047, 2048, 2049, 3073}
		plan.MaxPeriod = 4
		plan.BNs = []int{2, 3, 1023, 1024, 1025, 2048, 2049, 3073}
		plan.BMaxPeriod = 3
		plan.BPayloads = []string{"1", "9", "mixed"}
		plan.BLess = c11LessNames
		plan.MNs = []int{1025, 2049, 3073}
	}
	deadline := time.Now().Add(budget)

	// Job order: with one worker the cheap in-memory searches and the chunk family first, the
	// disk-bound temp-file configurations last, so that a slow disk can only cut those short (the
	// run then reports exhaustive=false and names what was cut). Several workers: longest jobs first.
	type job func(dir string) c11Res
	var callocJobs, fileJobs, chunkJobs, jobs []job
	cfgs := c11Configs()
	primary := c11Cfg{Kind: "calloc", Cap: 64}
	depths := map[string]int{}
	sortDepths := map[string]int{}
	for _, mode := range []string{"bytes", "slices"} {
		for _, cfg := range cfgs {
			mode, cfg := mode, cfg
			d := c11Depth(tier, mode, cfg)
			depths[mode+"/"+cfg.String()] = d
			sd := sortDepth
			if tier == "quick" && cfg.Kind != "calloc" {
				sd = 2 // every rebuild costs a temp file, an mmap and an msync
			}
			if mode == "slices" {
				sortDepths[mode+"/"+cfg.String()] = min(sd, d)
			}
			j := func(dir string) c11Res {
				akd := -1
				if cfg == primary {
					akd = allKeysDepth
				}
				return c11BFS(mode, cfg, d, sd, akd, dir, deadline)
			}
			if cfg.Kind == "calloc" {
				callocJobs = append(callocJobs, j)
			} else {
				fileJobs = append(fileJobs, j)
			}
		}
	}
	nBFS := len(callocJobs) + len(fileJobs)
	chunk := c11ChunkCases(plan)
	large := c11LargeCases()
	chunk = append(chunk, large...)
	shards := 1
	if workers > 1 {
		shards = 4 * workers
	}
	for s := 0; s < shards; s++ {
		var mine []c11Case
		for i := s; i < len(chunk); i += shards {
			mine = append(mine, chunk[i])
		}
		s := s
		chunkJobs = append(chunkJobs, func(dir string) c11Res {
			return c11ChunkShard(fmt.Sprintf("chunk-family/shard%d", s), mine, dir, deadline)
		})
	}
	if workers == 1 {
		jobs = append(append(append(jobs, callocJobs...), chunkJobs...), fileJobs...)
	} else {
		jobs = append(append(append(jobs, fileJobs...), callocJobs...), chunkJobs...)
	}

	results := make([]c11Res, len(jobs))
	var wg sync.WaitGroup
	ch := make(chan int)
	for w := 0; w < workers; w++ {
		wg.Add(1)
		go func() {
			defer wg.Done()
			for i := range ch {
				results[i] = jobs[i](filepath.Join(work, fmt.Sprintf("job%d", i)))
			}
		}()
	}
	for i := range jobs {
		ch <- i
	}
	close(ch)
	wg.Wait()

	var states, trans, traces, sortStates, sortRuns, chunkRuns, grow, sw, refused int64
	exhaustive := true
	filesLeft := 0
	var per []c11Res
	chunkRes := c11Res{Name: "chunk-family", Complete: true}
	var cut []string
	for _, res := range results {
		if !res.Complete {
			cut = append(cut, res.Name)
		}
		for _, vr := range res.viols {
			r.Violation(vr.V.Key, vr.V.What, vr.Case)
		}
		traces += res.Traces
		filesLeft += res.FilesLeft
		exhaustive = exhaustive && res.Complete
		if res.Mode != "" {
			states += res.States
			trans += res.Transitions
			sortStates += res.SortStates
			sortRuns += res.Sorts
			grow += res.Grow
			sw += res.Switch
			refused += res.Refused
			per = append(per, res)
		} else {
			chunkRuns += res.Sorts
			chunkRes.Sorts += res.Sorts
			chunkRes.Traces += res.Traces
			chunkRes.WallS += res.WallS
			chunkRes.Complete = chunkRes.Complete && res.Complete
		}
	}
	// samples: 7 histories spread evenly over the BFS runs (calloc->mmap switch points and deepest
	// states) plus one case of the chunk family
	var all []c11Case
	for _, res := range results {
		all = append(all, res.samples...)
	}
	for i := 0; i < 7 && len(all) > 0; i++ {
		r.Sample(all[i*len(all)/7])
	}
	if len(chunk) > 0 {
		r.Sample(chunk[len(chunk)/2])
	}
	between := 0
	for _, c := range chunk {
		if c.Range != nil {
			between++
		}
	}
	r.Cov["states"] = states
	r.Cov["transitions"] = trans
	r.Cov["traces_validated_against_impl"] = traces
	r.Cov["exhaustive"] = exhaustive
	if len(cut) > 0 {
		r.Cov["cut_short_by_internal_deadline"] = cut
		fmt.Printf("C11 note: the internal deadline (%v) cut these parts short, exhaustive=false: %s\n", budget, strings.Join(cut, ", "))
	}
	r.Cov["bfs_runs"] = nBFS
	r.Cov["depth_bound_per_run"] = depths
	r.Cov["per_configuration"] = per
	r.Cov["alphabet_bytes_mode"] = len(c11Alphabet("bytes"))
	r.Cov["alphabet_slices_mode"] = len(c11Alphabet("slices"))
	r.Cov["lengths_bytes_mode"] = []int{0, 1, 7, 8, 55, 56, 57, 200}
	r.Cov["lengths_slices_mode"] = []int{0, 1, 8, 100}
	r.Cov["transitions_that_grew_the_buffer"] = grow
	r.Cov["transitions_that_switched_calloc_to_mmap"] = sw
	r.Cov["writes_refused_by_max_size"] = refused
	r.Cov["sort_after_state_depth_bound_per_run"] = sortDepths
	r.Cov["sort_all_key_assignments_depth_bound_primary_cfg"] = allKeysDepth
	r.Cov["sort_after_state_states"] = sortStates
	r.Cov["sort_after_state_runs"] = sortRuns
	r.Cov["sort_comparison_functions"] = c11LessNames
	r.Cov["chunk_family_cases_enumerated"] = len(chunk)
	r.Cov["chunk_family_cases_run"] = chunkRuns
	r.Cov["chunk_family_sort_between_cases"] = between
	r.Cov["chunk_family_plan"] = plan
	r.Cov["chunk_family_periodic_key_patterns"] = len(c11Patterns(plan.MaxPeriod))
	r.Cov["chunk_family"] = chunkRes
	r.Cov["temp_files_left_after_release"] = filesLeft
	r.Cov["workers"] = workers
	r.Cov["large_reset_refill_histories"] = len(large)
	r.Cov["rule"] = "BFS per (mode, configuration): every event of the alphabet from every distinct reachable state up to the depth bound, a successor = replay of the shortest history on a fresh real z.Buffer + one event judged against the reference model; state key = (bufType, curSz, offset, padding, len(buf), epoch, sha1(Bytes())). Sort: each of 4 comparison functions on every slice-mode state of depth <= 5 (primary configuration calloc(cap=64): times every {0,1,2} key assignment of the non-empty slices, up to the stated depth); chunk family: n x key pattern x payload x comparison function, SortSlice and SortSliceBetween over marked sub-ranges."
	r.Assume = []string{
		"fill bytes are a function of (number of Resets so far, content position), never zero: a lost, shifted or stale byte differs from the model; which API call wrote a byte is not encoded in the byte (histories that differ only in how the same byte count was split merge into one state — every event is still executed from every such state)",
		"not judged: SliceOffsets on an empty buffer reports one offset; SliceOffsets entries of zero-length slices (both sides are filtered to non-empty slices, as the property says)",
		"WithMaxSize: a write must panic if the content alone would exceed the limit, must not panic if content + start padding fits; in between (the implementation counts its 8 padding bytes) either is accepted; the capacity curSz growing past the limit is not judged",
		"after a sort the full slice sequence (zero-length slices included) must be a permutation, ordered by the comparison function; comparison functions are strict weak orders",
		"Linux mmap/mremap path, calloc without jemalloc",
	}
	if filesLeft != 0 {
		fmt.Printf("C11 note: %d temp files were left behind after Release (not part of the property; removed with the work dir)\n", filesLeft)
	}
}
