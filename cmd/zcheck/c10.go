package main

// C10 — z.Tree is a correct uint64 map with an exact DeleteBelow.
//
// This file holds (1) the explicit-state BFS engine over operation histories on a REAL z.Tree that
// C10 and C16 share, (2) the C10 configurations and (3) the C10 long-history family.
//
// Engine: a state is the shortest history reaching it. Successors of a state S are produced by
// writing S's exact white-box state (page bytes + nextPage + freePage + stats; the Buffer object is
// untouched and its geometry is part of the state key) back into ONE live tree and executing one
// operation of the alphabet on it. Every expanded state's history is additionally re-executed from
// scratch (Reset / fresh file) every ValidateEvery-th expansion and must reproduce the same state
// key; every violation is re-executed from scratch before it is reported (the first 16 per
// classifier key). Oracle on every transition: reference model (key -> value), Get of every
// tracked key, IterateKV visits == live pairs each exactly once, no panic.

import (
	"encoding/json"
	"fmt"
	"math"
	"os"
	"os/exec"
	"path/filepath"
	"sort"
	"strconv"
	"strings"
	"sync"
	"time"

	"github.com/dgraph-io/ristretto/v2/z"

	"verif/internal/ev"
)

func init() { register("C10", "model_checking", c10) }

const (
	tSet uint8 = iota
	tDel
	tIter
	tReset
	tReopen
	tGet // Get(k) as an operation of its own (only in first-read probes: Get is an observation elsewhere)
)

// fnQuiet (a bit of top.fn): no observation after this operation. Histories of first-read probes
// end with "<op without observation> Get(k)": the Get is then the first read after the operation.
const fnQuiet uint8 = 0x80

const (
	fnNone uint8 = iota
	fnEvenInc
	fnAll3
)

var tKindNames = []string{"Set", "DeleteBelow", "IterateKV", "Reset", "Reopen", "Get"}
var tFnNames = []string{"none", "even-keys:v+1", "all:3"}

const maxU = math.MaxUint64

// top is one operation of a history.
type top struct {
	kind, fn uint8
	k, v     uint64 // Set(k, v); DeleteBelow(v)
}

// topJ is the JSON form of top (uint64 survive exactly as JSON integers).
type topJ struct {
	Op string `json:"op"`
	K  uint64 `json:"k,omitempty"`
	V  uint64 `json:"v,omitempty"`
	TS uint64 `json:"ts,omitempty"`
	Fn string `json:"fn,omitempty"`
	// Quiet: the harness made no observation (Get of every key, IterateKV) after this operation
	Quiet bool `json:"no_observation_after,omitempty"`
}

func (o top) String() string {
	if o.fn&fnQuiet != 0 {
		q := o
		q.fn &^= fnQuiet
		return q.String() + "[unobserved]"
	}
	switch o.kind {
	case tGet:
		return fmt.Sprintf("Get(%d)", o.k)
	case tSet:
		return fmt.Sprintf("Set(%d,%d)", o.k, o.v)
	case tDel:
		return fmt.Sprintf("DeleteBelow(%d)", o.v)
	case tIter:
		return "IterateKV(" + tFnNames[o.fn] + ")"
	case tReset:
		return "Reset"
	}
	return "Reopen"
}

func (o top) J() topJ {
	if o.fn&fnQuiet != 0 {
		q := o
		q.fn &^= fnQuiet
		j := q.J()
		j.Quiet = true
		return j
	}
	switch o.kind {
	case tGet:
		return topJ{Op: "Get", K: o.k}
	case tSet:
		return topJ{Op: "Set", K: o.k, V: o.v}
	case tDel:
		return topJ{Op: "DeleteBelow", TS: o.v}
	case tIter:
		return topJ{Op: "IterateKV", Fn: tFnNames[o.fn]}
	case tReset:
		return topJ{Op: "Reset"}
	}
	return topJ{Op: "Reopen"}
}

func (j topJ) top() top {
	if j.Quiet {
		q := j
		q.Quiet = false
		o := q.top()
		o.fn |= fnQuiet
		return o
	}
	switch j.Op {
	case "Get":
		return top{kind: tGet, k: j.K}
	case "Set":
		return top{kind: tSet, k: j.K, v: j.V}
	case "DeleteBelow":
		return top{kind: tDel, v: j.TS}
	case "IterateKV":
		for i, n := range tFnNames {
			if n == j.Fn {
				return top{kind: tIter, fn: uint8(i)}
			}
		}
	case "Reset":
		return top{kind: tReset}
	case "Reopen":
		return top{kind: tReopen}
	}
	ev.Fatalf("tree replay: unknown operation %+v", j)
	return top{}
}

func histString(h []top) string {
	s := make([]string, len(h))
	for i, o := range h {
		s[i] = o.String()
	}
	return strings.Join(s, " ")
}

func histJ(h []top) []topJ {
	out := make([]topJ, len(h))
	for i, o := range h {
		out[i] = o.J()
	}
	return out
}

func rewriteFn(fn uint8, k, v uint64) uint64 {
	switch fn {
	case fnEvenInc:
		if k%2 == 0 {
			return v + 1 // wraps to 0 for v = 2^64-1, which IterateKV defines as "keep"
		}
	case fnAll3:
		return 3
	}
	return 0
}

// tcfg is one bounded search: page size, alphabet, depth.
type tcfg struct {
	Name          string   `json:"name"`
	PageSize      int      `json:"page_size"`
	Persistent    bool     `json:"persistent,omitempty"`
	Prefix        []topJ   `json:"prefix,omitempty"` // executed (and judged) before the search starts
	Keys          []uint64 `json:"keys"`
	Vals          []uint64 `json:"vals"`
	TS            []uint64 `json:"deletebelow_ts"`
	Iters         []string `json:"iteratekv_rewrites,omitempty"`
	Reset         bool     `json:"reset,omitempty"`
	Reopen        bool     `json:"reopen,omitempty"`
	InsertOnly    bool     `json:"insert_only,omitempty"` // Set(k,v) only while k is not live: "all insertion orders"
	Depth         int      `json:"depth"`
	Probes        []uint64 `json:"never_set_probe_keys,omitempty"`
	BudgetS       float64  `json:"budget_s"`
	ValidateEvery int      `json:"validate_every"`
}

type tviol struct {
	Key    string          `json:"key"`
	What   string          `json:"what"`
	Replay json.RawMessage `json:"replay"`
	N      int64           `json:"n"`
}

// tres is the measured outcome of one configuration (also the worker -> parent wire format).
type tres struct {
	Name        string           `json:"name"`
	States      int64            `json:"states"`
	Transitions int64            `json:"transitions"`
	Replays     int64            `json:"histories_replayed_from_scratch"`
	Levels      []int64          `json:"new_states_per_depth"`
	Depth       int              `json:"depth_completed"`
	Closed      bool             `json:"closed_before_depth_bound"`
	Exhaustive  bool             `json:"exhaustive"`
	WallS       float64          `json:"wall_s"`
	Viol        []*tviol         `json:"violations,omitempty"`
	Samples     []any            `json:"samples,omitempty"`
	Counters    map[string]int64 `json:"counters"`
	Note        string           `json:"note,omitempty"`
	Long        bool             `json:"long_history,omitempty"`
}

func newRes(name string) *tres {
	return &tres{Name: name, Counters: map[string]int64{}, Exhaustive: true}
}

func (r *tres) viol(key string, mk func() (string, any)) {
	for _, v := range r.Viol {
		if v.Key == key {
			v.N++
			return
		}
	}
	what, rep := mk()
	b, err := json.Marshal(rep)
	if err != nil {
		ev.Fatalf("marshal replay: %v", err)
	}
	r.Viol = append(r.Viol, &tviol{Key: key, What: what, Replay: b, N: 1})
}

func (r *tres) sample(tag string, x any) {
	if r.Counters["sample:"+tag] > 0 || len(r.Samples) >= 6 {
		return
	}
	r.Counters["sample:"+tag] = 1
	r.Samples = append(r.Samples, map[string]any{"what": tag, "case": x})
}

// treplay is the replay object written into replay files.
type treplay struct {
	Mode       string   `json:"mode"` // "history" | "long"
	PageSize   int      `json:"page_size"`
	Persistent bool     `json:"persistent,omitempty"`
	Tracked    []uint64 `json:"tracked_keys,omitempty"`
	History    []topJ   `json:"history,omitempty"`
	// TightAlloc k > 0: the LAST operation of the history runs on a clone of the tree whose backing
	// buffer is sized so that the k-th new page allocated by that operation makes the buffer reallocate.
	TightAlloc int    `json:"buffer_reallocates_at_kth_page_allocation_of_last_op,omitempty"`
	Long       *tlong `json:"long,omitempty"`
}

// ---------------------------------------------------------------------------------------------
// mismatches and their classification

const (
	misGet         = iota // Get(k) != model
	misIterUnknown        // IterateKV visited a key that is not tracked at all
	misIterDead           // IterateKV visited a key the model says is absent
	misIterVal            // IterateKV visited a live key with the wrong value
	misIterDup            // IterateKV visited a live pair twice
	misIterMissing        // IterateKV did not visit a live pair
	misReopen             // white-box / Stats difference across Reopen
	misReuse              // a Set on a reopened tree advanced the allocation frontier while recycled pages were free
)

type tmis struct {
	kind      int
	during    bool // IterateKV mismatch seen by the operation's own callback (not the read-only pass after it)
	k         uint64
	got, want uint64
	field     string
}

func (m tmis) String() string {
	switch m.kind {
	case misGet:
		return fmt.Sprintf("Get(%d)=%d want %d", m.k, m.got, m.want)
	case misIterUnknown:
		return fmt.Sprintf("IterateKV visits untracked (%d,%d)", m.k, m.got)
	case misIterDead:
		return fmt.Sprintf("IterateKV visits (%d,%d) but key is absent", m.k, m.got)
	case misIterVal:
		return fmt.Sprintf("IterateKV visits (%d,%d) want value %d", m.k, m.got, m.want)
	case misIterDup:
		return fmt.Sprintf("IterateKV visits (%d,%d) twice", m.k, m.got)
	case misIterMissing:
		return fmt.Sprintf("IterateKV never visits live (%d,%d)", m.k, m.want)
	}
	if m.kind == misReuse {
		return fmt.Sprintf("Set on the reopened tree moved the allocation frontier by %d page(s) although %d recycled page(s) remain on the free list", m.got, m.want)
	}
	return fmt.Sprintf("%s after Reopen = %d, before = %d", m.field, m.got, m.want)
}

func misString(ms []tmis) string {
	s := make([]string, 0, len(ms))
	for i, m := range ms {
		if i == 6 {
			s = append(s, fmt.Sprintf("... (%d more)", len(ms)-6))
			break
		}
		s = append(s, m.String())
	}
	return strings.Join(s, "; ")
}

const (
	keyF2        = "C10/deletebelow-keeps-stale-value-of-leaf-max-key"
	keyF3        = "C16/reopen-panics-when-tree-fills-all-whole-pages"
	keyReopenPan = "C16/reopen-panics"
)

// ---------------------------------------------------------------------------------------------
// the engine: one live tree, exact restore, step + oracle

type teng struct {
	impure bool // an observation changed the tree's white-box state
	// reopenedInRun: the operations executed on the live tree since it was last put into a known
	// state (fresh / restore) include a Reopen: Sets are then also judged for "recycled pages are
	// reused" (C16)
	reopenedInRun bool
	prop    string // "C10" or "C16"
	cfg     *tcfg
	res     *tres
	ops     []top
	prefix  []top
	tracked []uint64
	kidx    map[uint64]int
	dir     string
	path    string
	t       *z.Tree
	hi      int // highest offset of t.data that may be non-zero
	noReuse bool
	noClone bool // Tree has fields the restore does not know: replay every successor from scratch

	visits  []uint64
	curFn   uint8
	cb      func(k, v uint64) uint64
	seenCnt []uint8
	mism    []tmis

	reopenPre      z.VerifTreeMeta
	reopenFileSize int64
	reopenPanics   int
	abort          string
}

func newEng(prop string, cfg *tcfg, res *tres, dir string) *teng {
	e := &teng{prop: prop, cfg: cfg, res: res, dir: dir, kidx: map[uint64]int{}}
	add := func(k uint64) {
		if k == 0 || k == maxU {
			ev.Fatalf("%s config %s: illegal key %d in alphabet", prop, cfg.Name, k)
		}
		if _, ok := e.kidx[k]; !ok {
			e.kidx[k] = len(e.tracked)
			e.tracked = append(e.tracked, k)
		}
	}
	for _, j := range cfg.Prefix {
		o := j.top()
		e.prefix = append(e.prefix, o)
		if o.kind == tSet {
			add(o.k)
		}
	}
	for _, k := range cfg.Keys {
		add(k)
	}
	for _, k := range cfg.Probes {
		add(k)
	}
	// alphabet, simplest first
	for _, k := range cfg.Keys {
		for _, v := range cfg.Vals {
			if v == 0 {
				ev.Fatalf("%s config %s: value 0 is not legal", prop, cfg.Name)
			}
			e.ops = append(e.ops, top{kind: tSet, k: k, v: v})
		}
	}
	for _, ts := range cfg.TS {
		e.ops = append(e.ops, top{kind: tDel, v: ts})
	}
	for _, f := range cfg.Iters {
		e.ops = append(e.ops, topJ{Op: "IterateKV", Fn: f}.top())
	}
	if cfg.Reopen {
		e.ops = append(e.ops, top{kind: tReopen})
	}
	if cfg.Reset {
		e.ops = append(e.ops, top{kind: tReset})
	}
	e.seenCnt = make([]uint8, len(e.tracked))
	e.cb = func(k, v uint64) uint64 {
		e.visits = append(e.visits, k, v)
		return rewriteFn(e.curFn, k, v)
	}
	if cfg.Persistent {
		e.path = filepath.Join(dir, "tree-"+strconv.Itoa(os.Getpid())+".db")
	}
	if extra, plain := z.VerifTreeExtraFields(); len(extra) > 0 {
		if plain {
			if !strings.Contains(res.Note, "unknown plain-data") {
				res.Note += fmt.Sprintf("z.Tree has unknown plain-data fields %v: they are snapshotted, restored, cloned and hashed as opaque bytes together with the known state. ", extra)
			}
		} else {
			e.noClone = true
			res.Note += fmt.Sprintf("z.Tree has unknown fields %v that are not plain data: exact restore and clone probes disabled, every successor is replayed from scratch. ", extra)
		}
	}
	for _, f := range []string{"buffer", "data", "nextPage", "freePage", "stats"} {
		if !strings.Contains(","+strings.Join(z.VerifTreeFields(), ",")+",", ","+f+",") {
			ev.Fatalf("z.Tree no longer has the field %q the white-box export reads", f)
		}
	}
	return e
}

func (e *teng) close() {
	if e.t != nil {
		_ = e.t.Close()
		e.t = nil
	}
	if e.path != "" {
		_ = os.Remove(e.path)
	}
}

func (e *teng) bump() {
	if e.t == nil {
		return
	}
	m := z.VerifTreeMetaOf(e.t)
	off := m.DataLen
	if m.NextPage < uint64(m.DataLen/e.cfg.PageSize) {
		off = int(m.NextPage) * e.cfg.PageSize
	}
	if off > e.hi {
		e.hi = off
	}
}

// fresh makes the live tree an empty tree (new object, new file, or Reset when that was verified
// to be byte-identical to a new tree).
func (e *teng) fresh() (pan any) {
	defer func() {
		if r := recover(); r != nil {
			pan = r
			e.t = nil
		}
	}()
	if e.cfg.Persistent {
		if e.t != nil {
			if err := e.t.Close(); err != nil {
				ev.Fatalf("closing %s: %v", e.path, err)
			}
			e.t = nil
		}
		_ = os.Remove(e.path)
		t, err := z.NewTreePersistent(e.path)
		if err != nil {
			ev.Fatalf("NewTreePersistent(%s): %v", e.path, err)
		}
		e.t = t
	} else if e.t == nil || e.noReuse {
		if e.t != nil {
			_ = e.t.Close()
		}
		e.t = z.NewTree("verif")
	} else {
		e.t.Reset()
	}
	e.hi = 0
	e.reopenedInRun = false
	e.bump()
	return nil
}

func thash(m z.VerifTreeMeta, used []byte) [2]uint64 {
	a, b := uint64(0x9E3779B97F4A7C15), uint64(0xC2B2AE3D27D4EB4F)
	mix := func(w uint64) {
		a = (a ^ w) * 0xff51afd7ed558ccd
		a ^= a >> 32
		b = (b + w) * 0xc4ceb9fe1a85ec53
		b = (b << 27) | (b >> 37)
		b ^= a
	}
	mix(m.NextPage)
	mix(m.FreePage)
	mix(uint64(m.Stats.NumLeafKeys))
	mix(uint64(m.Stats.NumPagesFree))
	mix(uint64(m.Stats.Allocated) ^ uint64(m.Stats.Bytes)<<16 ^ uint64(m.Stats.NumPages)<<32 ^ uint64(m.Stats.PageSize)<<48 ^ math.Float64bits(m.Stats.Occupancy))
	mix(uint64(m.DataLen))
	mix(uint64(m.BufLen))
	for i := 0; i < len(m.Extra); i++ {
		mix(uint64(m.Extra[i]) + uint64(i)<<8)
	}
	for i := 0; i < len(m.Page0); i++ {
		mix(uint64(m.Page0[i]) + uint64(i)<<9)
	}
	for _, w := range z.BytesToUint64Slice(used) {
		mix(w)
	}
	a ^= a >> 33
	a *= 0xff51afd7ed558ccd
	a ^= a >> 33
	b ^= b >> 29
	b *= 0xc4ceb9fe1a85ec53
	b ^= b >> 32
	return [2]uint64{a, b}
}

func (e *teng) curKey() (z.VerifTreeMeta, []byte, [2]uint64) {
	m := z.VerifTreeMetaOf(e.t)
	u := z.VerifTreeUsed(e.t)
	return m, u, thash(m, u)
}

// restore makes the live tree equal to the given state; false = geometry differs (caller replays).
func (e *teng) restore(m z.VerifTreeMeta, used []byte) bool {
	if e.t == nil || e.noClone {
		return false
	}
	if !z.VerifTreeRestore(e.t, m, used, e.hi+2*e.cfg.PageSize) {
		return false
	}
	e.hi = e.cfg.PageSize + len(used)
	return true
}

func (e *teng) checkVisits(model []uint64, during bool) {
	for i := range e.seenCnt {
		e.seenCnt[i] = 0
	}
	for i := 0; i+1 < len(e.visits); i += 2 {
		k, v := e.visits[i], e.visits[i+1]
		idx, ok := e.kidx[k]
		switch {
		case !ok:
			e.mism = append(e.mism, tmis{kind: misIterUnknown, during: during, k: k, got: v})
		case model[idx] == 0:
			e.mism = append(e.mism, tmis{kind: misIterDead, during: during, k: k, got: v})
		case model[idx] != v:
			e.mism = append(e.mism, tmis{kind: misIterVal, during: during, k: k, got: v, want: model[idx]})
			e.seenCnt[idx]++
		case e.seenCnt[idx] > 0:
			e.mism = append(e.mism, tmis{kind: misIterDup, during: during, k: k, got: v})
		default:
			e.seenCnt[idx]++
		}
	}
	for i, want := range model {
		if want != 0 && e.seenCnt[i] == 0 {
			e.mism = append(e.mism, tmis{kind: misIterMissing, during: during, k: e.tracked[i], want: want})
		}
	}
}

// observe: Get of every tracked key and one read-only IterateKV, compared with the model.
func (e *teng) observe(model []uint64) {
	for i, k := range e.tracked {
		if got := e.t.Get(k); got != model[i] {
			e.mism = append(e.mism, tmis{kind: misGet, k: k, got: got, want: model[i]})
		}
	}
	e.visits = e.visits[:0]
	e.curFn = fnNone
	e.t.IterateKV(e.cb)
	e.checkVisits(model, false)
}

// step executes one operation on the live tree, updates the model in place and runs the oracle.
// pan != nil: the operation (or an observation) panicked.
func (e *teng) step(op top, model []uint64) (pan any, mism []tmis) {
	defer func() {
		if r := recover(); r != nil {
			pan = r
			mism = nil
		}
		e.bump()
	}()
	e.mism = e.mism[:0]
	quiet := op.fn&fnQuiet != 0
	op.fn &^= fnQuiet
	switch op.kind {
	case tGet:
		want := uint64(0)
		if idx, ok := e.kidx[op.k]; ok {
			want = model[idx]
		}
		if got := e.t.Get(op.k); got != want {
			e.mism = append(e.mism, tmis{kind: misGet, k: op.k, got: got, want: want})
			return nil, e.mism
		}
	case tSet:
		judgeReuse := e.prop == "C16" && e.reopenedInRun
		var pre z.VerifTreeMeta
		if judgeReuse {
			pre = z.VerifTreeMetaOf(e.t)
		}
		e.t.Set(op.k, op.v)
		model[e.kidx[op.k]] = op.v
		if judgeReuse {
			// Set never frees pages: every node it allocates must come from the free list while
			// that is non-empty, so the frontier may only move once the list is exhausted
			if post := z.VerifTreeMetaOf(e.t); post.NextPage > pre.NextPage && post.Stats.NumPagesFree > 0 && post.FreePage != 0 {
				e.mism = append(e.mism, tmis{kind: misReuse, k: op.k, got: post.NextPage - pre.NextPage, want: uint64(post.Stats.NumPagesFree)})
			}
		}
	case tDel:
		e.t.DeleteBelow(op.v)
		for i, v := range model {
			if v != 0 && v < op.v {
				model[i] = 0
			}
		}
	case tIter:
		e.visits = e.visits[:0]
		e.curFn = op.fn
		e.t.IterateKV(e.cb)
		e.checkVisits(model, true)
		for i, v := range model {
			if v != 0 {
				if nv := rewriteFn(op.fn, e.tracked[i], v); nv != 0 {
					model[i] = nv
				}
			}
		}
	case tReset:
		e.t.Reset()
		for i := range model {
			model[i] = 0
		}
	case tReopen:
		e.reopen()
		e.reopenedInRun = true
	}
	if quiet {
		return nil, e.mism
	}
	// Observations must not change the tree. If they do (a change gave Get or IterateKV a side
	// effect: a lookup hint, a cache), the ORDER of reads matters and the search additionally makes
	// every tracked key the first read after every operation (firstReadProbe).
	var k0 [2]uint64
	if !e.impure {
		_, _, k0 = e.curKey()
	}
	e.observe(model)
	if !e.impure {
		if _, _, k1 := e.curKey(); k1 != k0 {
			e.impure = true
			e.res.Note += "observations (Get / read-only IterateKV) change the white-box state of the tree: first-read probes switched on. "
		}
	}
	return nil, e.mism
}

// reopen: Close + NewTreePersistent on the same path; differential on nextPage, freePage, Stats.
func (e *teng) reopen() {
	pre := z.VerifTreeMetaOf(e.t)
	preStats := e.t.Stats()
	e.reopenPre = pre
	e.reopenFileSize = -1
	old := e.t
	e.t = nil
	if err := old.Close(); err != nil {
		ev.Fatalf("Close(%s): %v", e.path, err)
	}
	if fi, err := os.Stat(e.path); err == nil {
		e.reopenFileSize = fi.Size()
	}
	t, err := z.NewTreePersistent(e.path) // a panic here leaves e.t == nil (mapping and fd leak inside z)
	if err != nil {
		ev.Fatalf("NewTreePersistent(%s): %v", e.path, err)
	}
	e.t = t
	post := z.VerifTreeMetaOf(t)
	postStats := t.Stats()
	if post.NextPage != pre.NextPage {
		e.mism = append(e.mism, tmis{kind: misReopen, field: "nextPage", got: post.NextPage, want: pre.NextPage})
	}
	if post.FreePage != pre.FreePage {
		e.mism = append(e.mism, tmis{kind: misReopen, field: "freePage", got: post.FreePage, want: pre.FreePage})
	}
	cmp := func(name string, got, want int) {
		if got != want {
			e.mism = append(e.mism, tmis{kind: misReopen, field: "Stats()." + name, got: uint64(got), want: uint64(want)})
		}
	}
	cmp("Bytes", postStats.Bytes, preStats.Bytes)
	cmp("NumLeafKeys", postStats.NumLeafKeys, preStats.NumLeafKeys)
	cmp("NumPages", postStats.NumPages, preStats.NumPages)
	cmp("NumPagesFree", postStats.NumPagesFree, preStats.NumPagesFree)
	cmp("PageSize", postStats.PageSize, preStats.PageSize)
	if postStats.Occupancy != preStats.Occupancy && !(postStats.Occupancy != postStats.Occupancy && preStats.Occupancy != preStats.Occupancy) {
		e.mism = append(e.mism, tmis{kind: misReopen, field: "Stats().Occupancy(bits)", got: math.Float64bits(postStats.Occupancy), want: math.Float64bits(preStats.Occupancy)})
	}
}

// leafMaxKeys walks the live tree: key -> true iff the key is the LAST key of a leaf; value stored.
func (e *teng) leafInfo() (isMax map[uint64]bool, stored map[uint64]uint64, ok bool) {
	isMax, stored = map[uint64]bool{}, map[uint64]uint64{}
	defer func() {
		if r := recover(); r != nil {
			ok = false
		}
	}()
	z.VerifTreeWalk(e.t, func(_ uint64, leaf bool, kv []uint64) {
		if !leaf {
			return
		}
		for i := 0; i+1 < len(kv); i += 2 {
			isMax[kv[i]] = i+2 == len(kv)
			stored[kv[i]] = kv[i+1]
		}
	})
	return isMax, stored, true
}

func opWord(op top) string { return strings.ToLower(tKindNames[op.kind]) }

// classify turns the outcome of a failing transition into classifier keys (one or more).
// preLeaf is the leaf layout of the pre-state (only needed for DeleteBelow).
func (e *teng) classify(op top, preModel []uint64, preLeaf func() (map[uint64]bool, map[uint64]uint64, bool), pan any, mism []tmis) []string {
	set := map[string]bool{}
	if pan != nil {
		if op.kind == tReopen {
			ps := int64(e.cfg.PageSize)
			np := int64(e.reopenPre.NextPage)
			dl := e.reopenFileSize - 8 // len(t.data) of the reopened tree
			msg := fmt.Sprint(pan)
			if e.reopenFileSize > 0 && np*ps < dl && (np+1)*ps > dl && strings.Contains(msg, "slice bounds out of range") {
				return []string{keyF3}
			}
			return []string{keyReopenPan}
		}
		return []string{e.prop + "/panic-in-" + opWord(op)}
	}
	getBad := map[uint64]bool{}
	for _, m := range mism {
		if m.kind == misGet {
			getBad[m.k] = true
		}
	}
	var isMax map[uint64]bool
	var stored map[uint64]uint64
	walked, walkOK := false, false
	f2 := func(k, staleVal uint64) bool {
		// finding F2: the key was live with a value below ts, DeleteBelow(ts) should have removed it,
		// the tree still serves exactly that old value, and the key was the largest key of its leaf.
		if op.kind != tDel {
			return false
		}
		idx, ok := e.kidx[k]
		if !ok || preModel[idx] == 0 || preModel[idx] >= op.v || staleVal != preModel[idx] {
			return false
		}
		if !walked {
			walked = true
			isMax, stored, walkOK = preLeaf()
		}
		return walkOK && isMax[k] && stored[k] == staleVal
	}
	for _, m := range mism {
		switch m.kind {
		case misReuse:
			set["C16/recycled-page-not-reused-after-reopen"] = true
		case misReopen:
			switch {
			case m.field == "freePage":
				set["C16/reopen-changes-free-list-head"] = true
			case m.field == "nextPage":
				set["C16/reopen-changes-allocation-frontier"] = true
			default:
				set["C16/reopen-changes-stats"] = true
			}
		case misGet:
			switch {
			case op.kind == tReopen:
				set["C16/reopen-changes-contents"] = true
			case m.want == 0 && f2(m.k, m.got):
				set[keyF2] = true
			case m.want == 0:
				set[e.prop+"/"+opWord(op)+"-leaves-absent-key-readable"] = true
			case m.got == 0:
				set[e.prop+"/"+opWord(op)+"-loses-live-key"] = true
			default:
				set[e.prop+"/"+opWord(op)+"-leaves-wrong-value"] = true
			}
		default:
			if getBad[m.k] && m.kind != misIterDup {
				if op.kind == tDel && m.kind == misIterDead && !f2(m.k, m.got) {
					set[e.prop+"/"+opWord(op)+"-leaves-absent-key-readable"] = true
				}
				continue // same root cause as the Get mismatch on that key
			}
			switch {
			case op.kind == tReopen:
				set["C16/reopen-changes-contents"] = true
			case m.kind == misIterDead && f2(m.k, m.got):
				set[keyF2] = true
			case m.during:
				set[e.prop+"/iteratekv-call-visits-wrong-pairs"] = true
			default:
				set[e.prop+"/iteratekv-disagrees-with-get-after-"+opWord(op)] = true
			}
		}
	}
	out := make([]string, 0, len(set))
	for k := range set {
		out = append(out, k)
	}
	sort.Strings(out)
	return out
}

// ---------------------------------------------------------------------------------------------
// from-scratch execution of a history, with judgement

type trun struct {
	failAt  int // -1: the whole history passed
	classes []string
	pan     any
	mism    []tmis
	model   []uint64
}

// runHistory executes hist on an empty tree (fresh), judging every step; it stops at the first failing
// step and classifies it.
func (e *teng) runHistory(hist []top) trun {
	e.res.Replays++
	out := trun{failAt: -1, model: make([]uint64, len(e.tracked))}
	if pan := e.fresh(); pan != nil {
		out.failAt, out.pan, out.classes = 0, pan, []string{e.prop + "/panic-creating-empty-tree"}
		return out
	}
	preModel := make([]uint64, len(e.tracked))
	var preUsed []byte
	for i, op := range hist {
		copy(preModel, out.model)
		preMeta := z.VerifTreeMetaOf(e.t)
		preUsed = append(preUsed[:0], z.VerifTreeUsed(e.t)...)
		pan, mism := e.step(op, out.model)
		if pan != nil || len(mism) > 0 {
			out.failAt, out.pan = i, pan
			out.mism = append([]tmis(nil), mism...)
			preLeaf := func() (map[uint64]bool, map[uint64]uint64, bool) {
				if e.t == nil {
					if e.fresh() != nil {
						return nil, nil, false
					}
				}
				if !z.VerifTreeRestore(e.t, preMeta, preUsed, e.hi+2*e.cfg.PageSize) {
					return nil, nil, false
				}
				e.hi = e.cfg.PageSize + len(preUsed)
				return e.leafInfo()
			}
			out.classes = e.classify(op, preModel, preLeaf, pan, out.mism)
			return out
		}
	}
	return out
}

func describe(hist []top, pan any, mism []tmis) string {
	if pan != nil {
		msg := fmt.Sprint(pan)
		if len(msg) > 160 {
			msg = msg[:160] + "..."
		}
		return fmt.Sprintf("history [%s]: last operation panics: %s", histString(hist), msg)
	}
	return fmt.Sprintf("history [%s]: %s", histString(hist), misString(mism))
}

// ---------------------------------------------------------------------------------------------
// BFS

type tlevel struct {
	ids    []int32
	metas  []z.VerifTreeMeta
	off    []int
	bytes  []byte
	models []uint64
	keys   [][2]uint64
}

func (l *tlevel) add(id int32, m z.VerifTreeMeta, used []byte, model []uint64, key [2]uint64) {
	if len(l.off) == 0 {
		l.off = append(l.off, 0)
	}
	l.ids = append(l.ids, id)
	l.metas = append(l.metas, m)
	l.bytes = append(l.bytes, used...)
	l.off = append(l.off, len(l.bytes))
	l.models = append(l.models, model...)
	l.keys = append(l.keys, key)
}

type tsearch struct {
	e         *teng
	parent    []int32
	opOf      []uint16
	confirmed map[string]int
}

func (s *tsearch) hist(id int32, extra ...top) []top {
	var rev []top
	for id > 0 {
		rev = append(rev, s.e.ops[s.opOf[id]])
		id = s.parent[id]
	}
	h := append([]top(nil), s.e.prefix...)
	for i := len(rev) - 1; i >= 0; i-- {
		h = append(h, rev[i])
	}
	return append(h, extra...)
}

func hasReopen(h []top) bool {
	for _, o := range h {
		if o.kind == tReopen {
			return true
		}
	}
	return false
}

func (e *teng) replayObj(hist []top) treplay {
	return treplay{Mode: "history", PageSize: e.cfg.PageSize, Persistent: e.cfg.Persistent, Tracked: e.tracked, History: histJ(hist)}
}

// report handles one failing transition: classification, C16 scoping, confirmation, recording.
func (s *tsearch) report(hist []top, classes []string, pan any, mism []tmis) {
	e := s.e
	op := hist[len(hist)-1]
	if e.prop == "C16" && op.kind != tReopen {
		// A map failure on a persistent tree is C16's business only if a Reopen earlier in the history
		// caused it: re-run the history without its Reopen events; if it still fails, it is a C10 matter.
		if !hasReopen(hist) {
			e.res.Counters["failures_without_any_reopen_in_history_left_to_C10"]++
			return
		}
		var plain []top
		for _, o := range hist {
			if o.kind != tReopen {
				plain = append(plain, o)
			}
		}
		if rr := e.runHistory(plain); rr.failAt >= 0 {
			e.res.Counters["failures_that_persist_without_the_reopens_left_to_C10"]++
			return
		}
		reuse := false
		for _, c := range classes {
			reuse = reuse || c == "C16/recycled-page-not-reused-after-reopen"
		}
		classes = []string{"C16/map-misbehaves-after-reopen"}
		if reuse {
			classes = []string{"C16/recycled-page-not-reused-after-reopen"}
		}
		if s.confirmed[classes[0]] < 16 {
			s.confirmed[classes[0]]++
			if rr := e.runHistory(hist); rr.failAt != len(hist)-1 {
				ev.Fatalf("%s %s: failure of [%s] did not reproduce from scratch (failAt=%d)", e.prop, e.cfg.Name, histString(hist), rr.failAt)
			}
		}
		e.res.viol(classes[0], func() (string, any) {
			return describe(hist, pan, mism) + " (the same history without its Reopen events passes)", e.replayObj(hist)
		})
		return
	}
	if op.kind == tReopen && pan != nil {
		e.reopenPanics++
		if e.reopenPanics > 48 {
			e.abort = "more than 48 panics inside NewTreePersistent (each leaks a mapping and a descriptor inside z): search stopped"
		}
	}
	for _, c := range classes {
		if s.confirmed[c] < 16 {
			s.confirmed[c]++
			rr := e.runHistory(hist)
			ok := rr.failAt == len(hist)-1
			if ok {
				ok = false
				for _, c2 := range rr.classes {
					ok = ok || c2 == c
				}
			}
			if !ok {
				ev.Fatalf("%s %s: violation %s of [%s] did not reproduce from scratch (failAt=%d classes=%v)", e.prop, e.cfg.Name, c, histString(hist), rr.failAt, rr.classes)
			}
			if op.kind == tReopen && rr.pan != nil {
				e.reopenPanics++
			}
		}
		e.res.viol(c, func() (string, any) {
			return fmt.Sprintf("page size %d, %s", e.cfg.PageSize, describe(hist, pan, mism)), e.replayObj(hist)
		})
	}
}

func (e *teng) restoreOrDie(m z.VerifTreeMeta, used []byte) {
	if !e.restore(m, used) {
		ev.Fatalf("%s %s: cannot put the live tree back after a probe", e.prop, e.cfg.Name)
	}
}

// toState makes the live tree equal to stored state S (id = its history).
func (s *tsearch) toState(id int32, m z.VerifTreeMeta, used []byte, key [2]uint64) {
	e := s.e
	if e.restore(m, used) {
		e.reopenedInRun = false
		return
	}
	if !e.noClone {
		// the live tree is gone (panic inside Reopen) or its buffer geometry changed (it grew): get a
		// new object of the original geometry before falling back to replaying the history
		if e.t != nil && !e.cfg.Persistent {
			_ = e.t.Close()
			e.t = nil
		}
		if e.fresh() == nil && e.restore(m, used) {
			e.res.Counters["live_tree_rebuilt_after_geometry_change_or_panic"]++
			e.reopenedInRun = false
			return
		}
	}
	h := s.hist(id)
	rr := e.runHistory(h)
	if rr.failAt >= 0 {
		ev.Fatalf("%s %s: stored history [%s] fails on replay at %d (%v): nondeterminism", e.prop, e.cfg.Name, histString(h), rr.failAt, rr.classes)
	}
	if _, _, k := e.curKey(); k != key {
		ev.Fatalf("%s %s: replay of [%s] reaches a different state than the stored one", e.prop, e.cfg.Name, histString(h))
	}
}

// ---------------------------------------------------------------------------------------------
// probes that spend extra effort where white-box state says it is worthwhile (the ORACLE stays the
// map behaviour; white-box state only decides where to look)

// onClone runs fn with the live tree temporarily replaced by t (an independent clone).
func (e *teng) onClone(t *z.Tree, fn func()) {
	saved, hi := e.t, e.hi
	e.t = t
	defer func() { e.t, e.hi = saved, hi }()
	fn()
}

// tightProbe: the transition S --op--> allocated `allocs` new pages at the frontier. Re-execute op
// from S on clones whose buffer reallocates (memory moves) at the 1st, 2nd, ... allocs-th of these
// allocations and judge each with the same oracle ("growth of the backing buffer" for every
// operation shape: leaf split, internal split, root split at every height the search reaches).
func (s *tsearch) tightProbe(id int32, op top, sm z.VerifTreeMeta, su []byte, smodel []uint64, allocs int) {
	e := s.e
	m3 := make([]uint64, len(smodel))
	for k := 1; k <= allocs && k <= 6; k++ {
		t := z.VerifTreeBuildTight(sm, su, k-1)
		if t == nil {
			e.res.Counters["tight_buffer_probes_skipped_state_not_clonable"]++
			return
		}
		var pan any
		var mism []tmis
		moved := false
		e.onClone(t, func() {
			// surgery self-check: the clone must serve exactly the contents of S before the operation
			func() {
				defer func() {
					if r := recover(); r != nil {
						ev.Fatalf("%s %s: clone with tight buffer panics on read: %v", e.prop, e.cfg.Name, r)
					}
				}()
				e.mism = e.mism[:0]
				e.observe(smodel)
				if len(e.mism) > 0 {
					ev.Fatalf("%s %s: clone with tight buffer differs from its source state: %s", e.prop, e.cfg.Name, misString(e.mism))
				}
			}()
			addr := z.VerifTreeBufAddr(e.t)
			copy(m3, smodel)
			pan, mism = e.step(op, m3)
			mism = append([]tmis(nil), mism...)
			moved = e.t != nil && z.VerifTreeBufAddr(e.t) != addr
		})
		e.res.Transitions++
		e.res.Counters["tight_buffer_probes"]++
		if moved {
			e.res.Counters["tight_buffer_probes_where_the_buffer_moved"]++
		}
		if pan == nil && len(mism) == 0 {
			continue
		}
		hist := s.hist(id, op)
		preLeaf := func() (map[uint64]bool, map[uint64]uint64, bool) {
			s.toState(id, sm, su, thash(sm, su))
			return e.leafInfo()
		}
		for _, c := range e.classify(op, smodel, preLeaf, pan, mism) {
			c += "-when-buffer-grows-inside-it"
			if s.confirmed[c] < 16 {
				s.confirmed[c]++
				if rr := e.runHistoryTight(hist, k); rr.failAt != len(hist)-1 {
					ev.Fatalf("%s %s: tight-buffer violation of [%s] (k=%d) did not reproduce from scratch (failAt=%d)", e.prop, e.cfg.Name, histString(hist), k, rr.failAt)
				}
			}
			kk := k
			e.res.viol(c, func() (string, any) {
				ro := e.replayObj(hist)
				ro.TightAlloc = kk
				return fmt.Sprintf("page size %d, %s — with the backing buffer sized so that page allocation #%d of the last operation reallocates it (without that the history passes)",
					e.cfg.PageSize, describe(hist, pan, mism), kk), ro
			})
		}
	}
}

// runHistoryTight: hist[:n-1] from scratch, then the last operation on a tight clone (allocation #k moves the buffer).
func (e *teng) runHistoryTight(hist []top, k int) trun {
	n := len(hist)
	rr := e.runHistory(hist[:n-1])
	if rr.failAt >= 0 {
		return rr
	}
	sm := z.VerifTreeMetaOf(e.t)
	su := append([]byte(nil), z.VerifTreeUsed(e.t)...)
	t := z.VerifTreeBuildTight(sm, su, k-1)
	if t == nil {
		ev.Fatalf("%s: state of [%s] cannot be cloned", e.prop, histString(hist[:n-1]))
	}
	preModel := append([]uint64(nil), rr.model...)
	var pan any
	var mism []tmis
	e.onClone(t, func() {
		pan, mism = e.step(hist[n-1], rr.model)
		mism = append([]tmis(nil), mism...)
	})
	if pan != nil || len(mism) > 0 {
		rr.failAt, rr.pan, rr.mism = n-1, pan, mism
		preLeaf := func() (map[uint64]bool, map[uint64]uint64, bool) {
			if !e.restore(sm, su) {
				return nil, nil, false
			}
			return e.leafInfo()
		}
		for _, c := range e.classify(hist[n-1], preModel, preLeaf, pan, mism) {
			rr.classes = append(rr.classes, c+"-when-buffer-grows-inside-it")
		}
	}
	return rr
}

// refillProbe: a Reset produced a state that is NOT byte-identical to an empty tree. That is not a
// violation (the property speaks about the map's behaviour only), but it is where a faulty Reset
// would hide: refill the tree with 2*maxKeys+2 ascending and descending Sets, full oracle after each.
func (s *tsearch) refillProbe(id int32, reset top, pm z.VerifTreeMeta, pu []byte) {
	e := s.e
	e.res.Counters["reset_states_not_identical_to_empty_tree_refill_probed"]++
	n := 2*z.VerifMaxKeys() + 2
	if n > 64 {
		n = 64
	}
	cfg := *e.cfg
	cfg.Prefix, cfg.Probes, cfg.Vals, cfg.Persistent = nil, nil, nil, false
	cfg.Keys = append([]uint64(nil), e.tracked...)
	for i := 1; i <= n; i++ {
		cfg.Keys = append(cfg.Keys, uint64(i))
	}
	pe := newEng(e.prop, &cfg, e.res, e.dir)
	pe.noReuse = e.noReuse
	defer pe.close()
	pu = append([]byte(nil), pu...)
	for dir := 0; dir < 2; dir++ {
		t := z.VerifTreeBuildTight(pm, pu, 64)
		if t == nil {
			e.res.Counters["tight_buffer_probes_skipped_state_not_clonable"]++
			return
		}
		model := make([]uint64, len(pe.tracked))
		var ops []top
		for i := 1; i <= n; i++ {
			k := uint64(i)
			if dir == 1 {
				k = uint64(n + 1 - i)
			}
			op := top{kind: tSet, k: k, v: uint64(i%3) + 1}
			ops = append(ops, op)
			var pan any
			var mism []tmis
			pe.onClone(t, func() {
				pan, mism = pe.step(op, model)
				mism = append([]tmis(nil), mism...)
			})
			e.res.Transitions++
			if pan == nil && len(mism) == 0 {
				continue
			}
			hist := s.hist(id, append([]top{reset}, ops...)...)
			for _, c := range pe.classify(op, model, func() (map[uint64]bool, map[uint64]uint64, bool) { return nil, nil, false }, pan, mism) {
				c += "-after-reset"
				if s.confirmed[c] < 16 {
					s.confirmed[c]++
					if rr := pe.runHistory(hist); rr.failAt < 0 {
						ev.Fatalf("%s %s: post-Reset violation of [%s] did not reproduce from scratch", e.prop, e.cfg.Name, histString(hist))
					}
				}
				e.res.viol(c, func() (string, any) {
					return fmt.Sprintf("page size %d, %s", e.cfg.PageSize, describe(hist, pan, mism)), pe.replayObj(hist)
				})
			}
			break
		}
	}
}

// firstReadProbe: from state id, op is executed WITHOUT the usual observation and Get(k) is the
// first read afterwards, for every tracked key k; then the full observation. Only used when
// observations were seen to change the tree (see step).
func (s *tsearch) firstReadProbe(id int32, op top, sm z.VerifTreeMeta, su []byte, sk [2]uint64, smodel []uint64) {
	e := s.e
	m2 := make([]uint64, len(smodel))
	qop := op
	qop.fn |= fnQuiet
	noLeaf := func() (map[uint64]bool, map[uint64]uint64, bool) { return nil, nil, false }
	// the last read BEFORE the operation: none (the state's own last observation), or - for the
	// operations that free or rewrite pages - Get(h) for every tracked key h
	lasts := []int{-1}
	if op.kind != tSet {
		for i := range e.tracked {
			lasts = append(lasts, i)
		}
	}
	for _, li := range lasts {
		for _, k := range e.tracked {
			s.toState(id, sm, su, sk)
			copy(m2, smodel)
			e.res.Counters["first_read_probes"]++
			var h []top
			var pan any
			var mism []tmis
			if li >= 0 {
				g0 := top{kind: tGet, k: e.tracked[li], fn: fnQuiet}
				h = append(h, g0)
				pan, mism = e.step(g0, m2)
			}
			last := qop
			if pan == nil && len(mism) == 0 {
				h = append(h, qop)
				pan, mism = e.step(qop, m2)
			}
			if pan == nil && len(mism) == 0 {
				last = top{kind: tGet, k: k}
				h = append(h, last)
				pan, mism = e.step(last, m2)
			}
			if pan != nil || len(mism) > 0 {
				mm := append([]tmis(nil), mism...)
				s.report(s.hist(id, h...), e.classify(last, m2, noLeaf, pan, mm), pan, mm)
				return
			}
		}
	}
}

// reuseProbe (C16): from a state with recycled pages, Reopen and then the allocating Set: the
// reopened tree must take the recycled pages before it moves the allocation frontier.
func (s *tsearch) reuseProbe(id int32, op top, sm z.VerifTreeMeta, su []byte, sk [2]uint64, smodel []uint64) {
	e := s.e
	if e.prop != "C16" {
		return
	}
	m2 := append([]uint64(nil), smodel...)
	s.toState(id, sm, su, sk)
	e.res.Counters["reopen_then_allocating_set_probes"]++
	ro := top{kind: tReopen}
	if pan, mism := e.step(ro, m2); pan != nil || len(mism) > 0 {
		return // reported by the Reopen transition of this state
	}
	if pan, mism := e.step(op, m2); pan != nil || len(mism) > 0 {
		mm := append([]tmis(nil), mism...)
		noLeaf := func() (map[uint64]bool, map[uint64]uint64, bool) { return nil, nil, false }
		s.report(s.hist(id, ro, op), e.classify(op, smodel, noLeaf, pan, mm), pan, mm)
	}
}

func (e *teng) search() {
	res, cfg := e.res, e.cfg
	start := time.Now()
	deadline := start.Add(time.Duration(cfg.BudgetS * float64(time.Second)))
	if !treeDeadline.IsZero() && treeDeadline.Before(deadline) {
		deadline = treeDeadline
	}
	defer func() { res.WallS = time.Since(start).Seconds() }()
	s := &tsearch{e: e, confirmed: map[string]int{}}
	nk := len(e.tracked)
	validateEvery := cfg.ValidateEvery
	if e.noReuse && validateEvery > 0 && validateEvery < 64 {
		validateEvery = 64 // every from-scratch replay costs a NewTree (~1 ms)
	}
	var emptyKey [2]uint64
	if e.fresh() == nil {
		_, _, emptyKey = e.curKey()
	}

	// initial state = empty tree + prefix (judged)
	if rr := e.runHistory(e.prefix); rr.failAt >= 0 {
		h := e.prefix[:rr.failAt+1]
		if len(h) == 0 {
			res.viol(rr.classes[0], func() (string, any) {
				return fmt.Sprintf("creating an empty tree panics: %v", rr.pan), e.replayObj(nil)
			})
		} else {
			s.report(h, rr.classes, rr.pan, rr.mism)
		}
		res.Exhaustive = false
		res.Note += "prefix fails; search not started. "
		return
	} else {
		m, u, key := e.curKey()
		cur := &tlevel{}
		cur.add(0, m, u, rr.model, key)
		s.parent, s.opOf = []int32{-1}, []uint16{0}
		seen := map[[2]uint64]struct{}{key: {}}
		res.States, res.Levels = 1, []int64{1}
		m2 := make([]uint64, nk)
		var expanded int64
	levels:
		for d := 0; d < cfg.Depth && len(cur.ids) > 0; d++ {
			next := &tlevel{}
			var newCount int64
			for si, id := range cur.ids {
				if si%32 == 0 && time.Now().After(deadline) {
					res.Exhaustive = false
					res.Note += fmt.Sprintf("time budget (%.0fs, or the tier deadline) reached at depth %d (%d of %d states of that depth expanded). ", cfg.BudgetS, d, si, len(cur.ids))
					break levels
				}
				if e.abort != "" {
					res.Exhaustive = false
					res.Note += e.abort + ". "
					break levels
				}
				sm, su, sk := cur.metas[si], cur.bytes[cur.off[si]:cur.off[si+1]], cur.keys[si]
				smodel := cur.models[si*nk : (si+1)*nk]
				atS := false
				if e.noClone || (validateEvery > 0 && expanded%int64(validateEvery) == 0) {
					h := s.hist(id)
					rr := e.runHistory(h)
					if rr.failAt >= 0 {
						ev.Fatalf("%s %s: history [%s] passed before but fails from scratch at %d (%v)", e.prop, cfg.Name, histString(h), rr.failAt, rr.classes)
					}
					if _, _, k := e.curKey(); k != sk {
						ev.Fatalf("%s %s: history [%s] executed from scratch does not reach the state the restored tree was in", e.prop, cfg.Name, histString(h))
					}
					for i := range smodel {
						if smodel[i] != rr.model[i] {
							ev.Fatalf("%s %s: model mismatch on replay of [%s]", e.prop, cfg.Name, histString(h))
						}
					}
					res.Counters["expanded_states_revalidated_from_scratch"]++
					atS = true
				}
				expanded++
				for oi, op := range e.ops {
					if op.kind == tSet && cfg.InsertOnly && smodel[e.kidx[op.k]] != 0 {
						continue
					}
					if !atS {
						s.toState(id, sm, su, sk)
					}
					copy(m2, smodel)
					pan, mism := e.step(op, m2)
					res.Transitions++
					atS = false
					if op.kind == tReopen {
						res.Counters["reopen_events"]++
						if sm.FreePage != 0 {
							res.Counters["reopen_events_with_free_pages"]++
						}
						if sm.Stats.NumPagesFree >= 2 {
							res.Counters["reopen_events_with_2+_free_pages"]++
						}
					}
					if pan != nil || len(mism) > 0 {
						mm := append([]tmis(nil), mism...)
						preLeaf := func() (map[uint64]bool, map[uint64]uint64, bool) {
							s.toState(id, sm, su, sk)
							return e.leafInfo()
						}
						classes := e.classify(op, smodel, preLeaf, pan, mm)
						s.report(s.hist(id, op), classes, pan, mm)
						continue
					}
					if e.impure {
						s.firstReadProbe(id, op, sm, su, sk, smodel)
						// back to the successor state
						s.toState(id, sm, su, sk)
						copy(m2, smodel)
						if pan, mism := e.step(op, m2); pan != nil || len(mism) > 0 {
							ev.Fatalf("%s %s: transition %s passed, then failed when repeated", e.prop, cfg.Name, op)
						}
					}
					m, u, key := e.curKey()
					if !cfg.Persistent && !e.noClone && op.kind == tSet && m.NextPage > sm.NextPage && m.NextPage-sm.NextPage < 16 {
						_, dup := seen[key]
						if !dup { // the same (state, op) is never probed twice; equal successor => equal probe
							pm, pk := m, key
							pu := append([]byte(nil), u...)
							s.tightProbe(id, op, sm, su, smodel, int(m.NextPage-sm.NextPage))
							// the probe may have used the live tree for classification: put the successor back
							s.e.restoreOrDie(pm, pu)
							m, u, key = e.curKey()
							if key != pk {
								ev.Fatalf("%s %s: live tree changed during a tight-buffer probe", e.prop, cfg.Name)
							}
						}
					}
					if !cfg.Persistent && !e.noClone && op.kind == tReset && key != emptyKey {
						if _, dup := seen[key]; !dup {
							s.refillProbe(id, op, m, u)
						}
					}
					if cfg.Persistent && op.kind == tSet && sm.FreePage != 0 && (m.NextPage > sm.NextPage || m.Stats.NumPagesFree < sm.Stats.NumPagesFree) {
						if _, dup := seen[key]; !dup {
							s.reuseProbe(id, op, sm, su, sk, smodel)
							s.toState(id, sm, su, sk)
							copy(m2, smodel)
							if pan, mism := e.step(op, m2); pan != nil || len(mism) > 0 {
								ev.Fatalf("%s %s: transition %s passed, then failed when repeated", e.prop, cfg.Name, op)
							}
							m, u, key = e.curKey()
						}
					}
					if sm.FreePage != 0 && m.Stats.NumPagesFree < sm.Stats.NumPagesFree && op.kind == tSet {
						res.Counters["transitions_reusing_a_free_page"]++
						res.sample("a Set that reuses a recycled page", histJ(s.hist(id, op)))
					}
					if key == sk {
						atS = true
						continue
					}
					if _, dup := seen[key]; dup {
						continue
					}
					seen[key] = struct{}{}
					res.States++
					newCount++
					if m.FreePage != 0 {
						res.Counters["states_with_free_pages"]++
						if m.Stats.NumPagesFree >= 2 {
							res.Counters["states_with_2+_free_pages"]++
							res.sample("two pages on the free list", histJ(s.hist(id, op)))
						}
					}
					if int64(m.NextPage)-1 > res.Counters["max_pages"] {
						res.Counters["max_pages"] = int64(m.NextPage) - 1
					}
					if len(s.parent) >= math.MaxInt32-1 || len(e.ops) > math.MaxUint16 {
						ev.Fatalf("state table overflow")
					}
					nid := int32(len(s.parent))
					s.parent = append(s.parent, id)
					s.opOf = append(s.opOf, uint16(oi))
					if d+1 < cfg.Depth {
						next.add(nid, m, u, m2, key)
					} else if newCount == 1 {
						res.sample("a deepest history", histJ(s.hist(nid)))
					}
				}
			}
			res.Depth = d + 1
			res.Levels = append(res.Levels, newCount)
			cur = next
			if len(cur.ids) == 0 && d+1 < cfg.Depth {
				res.Closed = true
			}
		}
	}
}

// runCfg runs one configuration in this process.
func runCfg(prop string, cfg *tcfg, dir string) *tres {
	res := newRes(cfg.Name)
	restore := z.VerifSetPageSize(cfg.PageSize)
	defer restore()
	e := newEng(prop, cfg, res, dir)
	defer e.close()
	if !cfg.Persistent {
		e.verifyResetIsFresh()
	}
	e.search()
	return res
}

// verifyResetIsFresh checks the assumption behind reusing one in-memory tree: after arbitrary use,
// Reset leaves exactly the bytes and fields of a new tree. If not, every replay uses NewTree.
func (e *teng) verifyResetIsFresh() {
	defer func() {
		if r := recover(); r != nil {
			e.noReuse = true
			e.t = nil
			e.res.Note += fmt.Sprintf("Reset-vs-NewTree self check panicked (%v): one NewTree per replay. ", r)
		}
	}()
	a := z.NewTree("verif")
	m0, u0, k0 := z.VerifTreeMetaOf(a), append([]byte(nil), z.VerifTreeUsed(a)...), [2]uint64{}
	k0 = thash(m0, u0)
	zero0 := z.VerifTreeZeroBeyond(a)
	for i := uint64(1); i <= 40; i++ {
		a.Set(i*3, i%5+1)
	}
	a.DeleteBelow(3)
	for i := uint64(1); i <= 10; i++ {
		a.Set(i*7, i)
	}
	a.Reset()
	m1 := z.VerifTreeMetaOf(a)
	k1 := thash(m1, z.VerifTreeUsed(a))
	if k0 != k1 || !zero0 || !z.VerifTreeZeroBeyond(a) {
		e.noReuse = true
		e.res.Note += "Reset does not reproduce the bytes of a new tree: one NewTree per replay. "
	} else {
		e.res.Counters["reset_equals_new_tree_selfcheck"] = 1
	}
	e.t = a
}

// ---------------------------------------------------------------------------------------------
// long histories (tens of thousands of keys: growth of the backing buffer, deep trees, long free lists)

type tlong struct {
	Name       string `json:"name"`
	PageSize   int    `json:"page_size"`
	Persistent bool   `json:"persistent,omitempty"`
	Pattern    string `json:"key_pattern"`  // seq | rev | stride | high
	N          int    `json:"keys"`         // number of Set operations
	Vals       string `json:"value_scheme"` // index: v = insertion index+1 ; hash: v = 1 + top 10 bits of k*phi
	DelEvery   int    `json:"deletebelow_every,omitempty"`
	// ResetThen != "": after the fill, Reset, then a second fill of N keys in this pattern with the
	// other value scheme (so every key gets a different value and the pages are built in another order).
	ResetThen string `json:"reset_then_refill_pattern,omitempty"`
	Reopen    string `json:"reopen,omitempty"`    // "" | every-change | at (C16 only)
	ReopenAt  int    `json:"reopen_at,omitempty"` // for "at": after this many operations
}

func (l *tlong) key(i int) uint64 { return l.keyOf(l.Pattern, i) }

func (l *tlong) keyOf(pattern string, i int) uint64 {
	switch pattern {
	case "seq":
		return uint64(i) + 1
	case "rev":
		return uint64(l.N - i)
	case "stride":
		return uint64((i*7919)%l.N) + 1
	case "high":
		return maxU - 1 - uint64(i)
	}
	ev.Fatalf("unknown key pattern %q", pattern)
	return 0
}

func (l *tlong) val(i int, k uint64) uint64 { return l.valOf(l.Vals, i, k) }

func (l *tlong) valOf(scheme string, i int, k uint64) uint64 {
	if scheme == "hash" {
		return (k*0x9E3779B97F4A7C15)>>54 + 1
	}
	return uint64(i) + 1
}

// ops generates the history: N Sets, a DeleteBelow after every DelEvery-th Set, and a tail
// IterateKV(even-keys:v+1) DeleteBelow(2^64-1) Set Set.
func (l *tlong) ops() []top {
	if l.Pattern == "stride" && l.N%7919 == 0 {
		ev.Fatalf("stride pattern needs N coprime to 7919")
	}
	var out []top
	for i := 0; i < l.N; i++ {
		k := l.key(i)
		out = append(out, top{kind: tSet, k: k, v: l.val(i, k)})
		if l.DelEvery > 0 && (i+1)%l.DelEvery == 0 {
			ts := uint64(512)
			if l.Vals != "hash" {
				ts = uint64(i+1)/2 + 1
			}
			out = append(out, top{kind: tDel, v: ts})
		}
	}
	if l.ResetThen != "" {
		out = append(out, top{kind: tReset})
		vs := "hash"
		if l.Vals == "hash" {
			vs = "index"
		}
		for i := 0; i < l.N; i++ {
			k := l.keyOf(l.ResetThen, i)
			out = append(out, top{kind: tSet, k: k, v: l.valOf(vs, i, k) + 1000000})
			if l.DelEvery > 0 && (i+1)%l.DelEvery == 0 && vs == "hash" {
				out = append(out, top{kind: tDel, v: 1000512})
			}
		}
	}
	out = append(out, top{kind: tIter, fn: fnEvenInc}, top{kind: tDel, v: maxU},
		top{kind: tSet, k: l.key(0), v: 7}, top{kind: tSet, k: l.key(l.N - 1), v: maxU})
	return out
}

func (l *tlong) allKeys() []uint64 {
	ks := make([]uint64, 0, l.N+4)
	for i := 0; i < l.N; i++ {
		ks = append(ks, l.key(i))
	}
	if l.ResetThen != "" {
		have := make(map[uint64]bool, l.N)
		for _, k := range ks {
			have[k] = true
		}
		for i := 0; i < l.N; i++ {
			if k := l.keyOf(l.ResetThen, i); !have[k] {
				have[k] = true
				ks = append(ks, k)
			}
		}
	}
	// never-set probes
	for _, p := range []uint64{uint64(l.N) + 1, uint64(l.N) + 2, 1 << 63, maxU - 2 - uint64(l.N)} {
		ks = append(ks, p)
	}
	return ks
}

// lightSet: Set + Get of that key and of the previously set key (the full oracle runs at checkpoints).
func (e *teng) lightSet(op top, prev uint64, model []uint64) (pan any, mism []tmis) {
	defer func() {
		if r := recover(); r != nil {
			pan, mism = r, nil
		}
	}()
	e.mism = e.mism[:0]
	e.t.Set(op.k, op.v)
	model[e.kidx[op.k]] = op.v
	for _, k := range [2]uint64{op.k, prev} {
		if k == 0 {
			continue
		}
		if got := e.t.Get(k); got != model[e.kidx[k]] {
			e.mism = append(e.mism, tmis{kind: misGet, k: k, got: got, want: model[e.kidx[k]]})
		}
	}
	return nil, e.mism
}

// c10Long runs one long history under the model oracle.
func c10Long(l *tlong, dir string) *tres {
	res := newRes(l.Name)
	res.Long = true
	start := time.Now()
	defer func() { res.WallS = time.Since(start).Seconds() }()
	restore := z.VerifSetPageSize(l.PageSize)
	defer restore()
	cfg := &tcfg{Name: l.Name, PageSize: l.PageSize, Persistent: l.Persistent, Keys: l.allKeys()}
	e := newEng("C10", cfg, res, dir)
	defer e.close()
	ops := l.ops()
	res.Replays = 1
	fail := func(i int, classes []string, pan any, mism []tmis) {
		for _, c := range classes {
			res.viol(c, func() (string, any) {
				d := misString(mism)
				if pan != nil {
					d = fmt.Sprintf("panic: %.160v", pan)
				}
				return fmt.Sprintf("long history %s (page size %d, %d keys %s, values %s, DeleteBelow every %d, then Reset + refill %q): after operation #%d %s: %s",
					l.Name, l.PageSize, l.N, l.Pattern, l.Vals, l.DelEvery, l.ResetThen, i, ops[i], d), treplay{Mode: "long", PageSize: l.PageSize, Persistent: l.Persistent, Long: l}
			})
		}
	}
	if pan := e.fresh(); pan != nil {
		fail(0, []string{"C10/panic-creating-empty-tree"}, pan, nil)
		return res
	}
	model := make([]uint64, len(e.tracked))
	preModel := make([]uint64, len(e.tracked))
	var prev uint64
	lastLen := z.VerifTreeMetaOf(e.t).BufLen
	for i, op := range ops {
		if i%2048 == 0 && pastTreeDeadline() {
			res.Exhaustive = false
			res.Note += fmt.Sprintf("tier deadline reached after operation #%d of %d. ", i, len(ops))
			return res
		}
		var pan any
		var mism []tmis
		var isMax map[uint64]bool
		var stored map[uint64]uint64
		walkOK := false
		if op.kind == tSet && i < len(ops)-2 {
			pan, mism = e.lightSet(op, prev, model)
			prev = op.k
			if pan == nil && len(mism) == 0 {
				dl := z.VerifTreeMetaOf(e.t).BufLen // the backing buffer was reallocated / the file remapped
				if dl != lastLen || i%8192 == 8191 {
					if dl != lastLen {
						res.Counters["buffer_growth_events"]++
					}
					lastLen = dl
					res.Counters["full_contents_checks"]++
					func() {
						defer func() {
							if r := recover(); r != nil {
								pan = r
							}
						}()
						e.mism = e.mism[:0]
						e.observe(model)
						mism = e.mism
					}()
				}
			}
		} else {
			copy(preModel, model)
			if op.kind == tDel {
				isMax, stored, walkOK = e.leafInfo()
			}
			pan, mism = e.step(op, model)
			res.Counters["full_contents_checks"]++
		}
		res.Transitions++
		if pan != nil || len(mism) > 0 {
			mm := append([]tmis(nil), mism...)
			classes := e.classify(op, preModel, func() (map[uint64]bool, map[uint64]uint64, bool) { return isMax, stored, walkOK }, pan, mm)
			fail(i, classes, pan, mm)
			res.Note += fmt.Sprintf("stopped after operation #%d of %d. ", i, len(ops))
			return res
		}
		m := z.VerifTreeMetaOf(e.t)
		if int64(m.NextPage)-1 > res.Counters["max_pages"] {
			res.Counters["max_pages"] = int64(m.NextPage) - 1
		}
		if int64(m.Stats.NumPagesFree) > res.Counters["max_free_pages"] {
			res.Counters["max_free_pages"] = int64(m.Stats.NumPagesFree)
		}
	}
	res.States = int64(len(ops)) + 1
	res.Depth = len(ops)
	return res
}

// ---------------------------------------------------------------------------------------------
// jobs: in-process (quick) or one worker subprocess of this binary per job (thorough)

type tjob struct {
	Prop string `json:"prop"`
	Cfg  *tcfg  `json:"cfg,omitempty"`
	Long *tlong `json:"long,omitempty"`
	Dir  string `json:"dir"`
	Out  string `json:"out"`
	// Deadline (unix seconds, 0 = none): the tier's internal deadline; a job that reaches it stops with exhaustive=false.
	Deadline float64 `json:"deadline,omitempty"`
}

func (j *tjob) name() string {
	if j.Cfg != nil {
		return j.Cfg.Name
	}
	return j.Long.Name
}

func (j *tjob) run() *tres {
	treeDeadline = time.Time{}
	if j.Deadline > 0 {
		treeDeadline = time.Unix(0, int64(j.Deadline*1e9))
	}
	switch {
	case j.Cfg != nil:
		return runCfg(j.Prop, j.Cfg, j.Dir)
	case j.Prop == "C16":
		return c16Long(j.Long, j.Dir)
	}
	return c10Long(j.Long, j.Dir)
}

// treeDeadline is the tier's internal deadline for the job running in this process (zero = none).
var treeDeadline time.Time

func pastTreeDeadline() bool { return !treeDeadline.IsZero() && time.Now().After(treeDeadline) }

const treeWorkerEnv = "ZCHECK_TREE_JOB"

// treeWorkerMain: when this process is a worker, run the job, write the result, exit.
func treeWorkerMain() {
	p := os.Getenv(treeWorkerEnv)
	if p == "" {
		return
	}
	b, err := os.ReadFile(p)
	if err != nil {
		ev.Fatalf("worker: %v", err)
	}
	var j tjob
	if err := json.Unmarshal(b, &j); err != nil {
		ev.Fatalf("worker: %v", err)
	}
	res := j.run()
	out, err := json.Marshal(res)
	if err != nil {
		ev.Fatalf("worker: %v", err)
	}
	if err := os.WriteFile(j.Out, out, 0o644); err != nil {
		ev.Fatalf("worker: %v", err)
	}
	os.Exit(0)
}

func treeWorkDir() string {
	base := os.Getenv("VERIF_WORKDIR")
	if base == "" {
		base = filepath.Join(ev.Root, ".build")
		_ = os.MkdirAll(base, 0o755)
	}
	d, err := os.MkdirTemp(base, "tree-")
	if err != nil {
		ev.Fatalf("work dir: %v", err)
	}
	return d
}

func runJobs(jobs []*tjob, parallel int, tier string) []*tres {
	out := make([]*tres, len(jobs))
	if parallel <= 1 {
		// the long histories are cheap (a few seconds in total) and must not be starved by the searches
		// when the machine is slow: they run first; results stay in job order (searches are published first)
		for i, j := range jobs {
			if j.Long != nil && j.Prop == "C10" {
				out[i] = j.run()
			}
		}
		for i, j := range jobs {
			if out[i] == nil {
				out[i] = j.run()
			}
		}
		return out
	}
	sem := make(chan struct{}, parallel)
	var wg sync.WaitGroup
	var mu sync.Mutex
	var firstErr string
	for i, j := range jobs {
		wg.Add(1)
		go func(i int, j *tjob) {
			defer wg.Done()
			sem <- struct{}{}
			defer func() { <-sem }()
			jf := filepath.Join(j.Dir, fmt.Sprintf("job-%d.json", i))
			j.Out = filepath.Join(j.Dir, fmt.Sprintf("res-%d.json", i))
			b, _ := json.Marshal(j)
			if err := os.WriteFile(jf, b, 0o644); err != nil {
				ev.Fatalf("job file: %v", err)
			}
			cmd := exec.Command(os.Args[0], j.Prop, tier)
			cmd.Env = append(os.Environ(), treeWorkerEnv+"="+jf, "GOMAXPROCS=2")
			cmd.Stdout = os.Stdout
			cmd.Stderr = os.Stderr
			err := cmd.Run()
			var res tres
			if err == nil {
				var rb []byte
				if rb, err = os.ReadFile(j.Out); err == nil {
					err = json.Unmarshal(rb, &res)
				}
			}
			mu.Lock()
			defer mu.Unlock()
			if err != nil {
				if firstErr == "" {
					firstErr = fmt.Sprintf("worker for %s failed: %v", j.name(), err)
				}
				return
			}
			out[i] = &res
		}(i, j)
	}
	wg.Wait()
	if firstErr != "" {
		ev.Fatalf("%s", firstErr)
	}
	return out
}

// publish feeds the measured results into the evidence.
func publish(r *ev.Run, results []*tres) {
	var states, trans, replays, longs int64
	exhaustive := true
	maxDepth := 0
	var summaries []any
	for _, res := range results {
		for _, v := range res.Viol {
			r.Violation(v.Key, v.What, v.Replay)
			for n := int64(1); n < v.N; n++ {
				r.Violation(v.Key, v.What, v.Replay)
			}
		}
		exhaustive = exhaustive && res.Exhaustive
		trans += res.Transitions
		replays += res.Replays
		if !res.Long {
			states += res.States
			if res.Depth > maxDepth {
				maxDepth = res.Depth
			}
		} else {
			longs++
		}
		for _, s := range res.Samples {
			r.Sample(s)
		}
		cnt := map[string]int64{}
		for k, v := range res.Counters {
			if !strings.HasPrefix(k, "sample:") {
				cnt[k] = v
			}
		}
		vk := map[string]int64{}
		for _, v := range res.Viol {
			vk[v.Key] = v.N
		}
		sum := map[string]any{"name": res.Name, "states": res.States, "transitions": res.Transitions,
			"depth_completed": res.Depth, "exhaustive": res.Exhaustive, "wall_s": math.Round(res.WallS*100) / 100, "counters": cnt}
		if !res.Long {
			sum["new_states_per_depth"] = res.Levels
			sum["closed_before_depth_bound"] = res.Closed
		}
		if len(vk) > 0 {
			sum["violations_by_key"] = vk
		}
		if res.Note != "" {
			sum["note"] = res.Note
		}
		summaries = append(summaries, sum)
	}
	r.Cov["states"] = states
	r.Cov["transitions"] = trans
	r.Cov["traces_validated_against_impl"] = replays
	r.Cov["long_histories"] = longs
	r.Cov["depth"] = maxDepth
	r.Cov["exhaustive"] = exhaustive
	r.Cov["details"] = map[string]any{"searches": summaries}
}

// ---------------------------------------------------------------------------------------------
// replay of one recorded case

func treeReplay(prop string, r *ev.Run, path string) {
	b, err := os.ReadFile(path)
	if err != nil {
		ev.Fatalf("replay: %v", err)
	}
	var f struct {
		Key    string  `json:"key"`
		What   string  `json:"what"`
		Replay treplay `json:"replay"`
	}
	if err := json.Unmarshal(b, &f); err != nil {
		ev.Fatalf("replay %s: %v", path, err)
	}
	dir := treeWorkDir()
	defer os.RemoveAll(dir)
	rp := f.Replay
	fmt.Printf("replaying %s: recorded key %s\n  recorded: %s\n", path, f.Key, f.What)
	var res *tres
	switch rp.Mode {
	case "history":
		cfg := &tcfg{Name: "replay", PageSize: rp.PageSize, Persistent: rp.Persistent, Keys: rp.Tracked}
		var hist []top
		for _, j := range rp.History {
			hist = append(hist, j.top())
		}
		for _, o := range hist {
			if o.kind == tSet {
				cfg.Probes = append(cfg.Probes, o.k)
			}
		}
		res = newRes("replay")
		restore := z.VerifSetPageSize(cfg.PageSize)
		e := newEng(prop, cfg, res, dir)
		var rr trun
		if rp.TightAlloc > 0 && len(hist) > 0 {
			rr = e.runHistoryTight(hist, rp.TightAlloc)
		} else {
			rr = e.runHistory(hist)
		}
		if rr.failAt < 0 {
			fmt.Printf("  now: the history [%s] passes (no violation)\n", histString(hist))
		} else {
			h := hist[:rr.failAt+1]
			fmt.Printf("  now: fails at operation #%d, classes %v: %s\n", rr.failAt, rr.classes, describe(h, rr.pan, rr.mism))
			if prop == "C16" && hist[rr.failAt].kind != tReopen {
				s := &tsearch{e: e, confirmed: map[string]int{}}
				s.report(h, rr.classes, rr.pan, rr.mism)
			} else {
				for _, c := range rr.classes {
					res.viol(c, func() (string, any) {
						ro := e.replayObj(h)
						if rr.failAt == len(hist)-1 {
							ro.TightAlloc = rp.TightAlloc
						}
						return fmt.Sprintf("page size %d, %s", cfg.PageSize, describe(h, rr.pan, rr.mism)), ro
					})
				}
			}
		}
		e.close()
		restore()
	case "long":
		if rp.Long == nil {
			ev.Fatalf("replay %s: no long spec", path)
		}
		if prop == "C16" {
			res = c16Long(rp.Long, dir)
		} else {
			res = c10Long(rp.Long, dir)
		}
		if len(res.Viol) == 0 {
			fmt.Printf("  now: long history %s passes (no violation)\n", rp.Long.Name)
		}
	default:
		ev.Fatalf("replay %s: unknown mode %q", path, rp.Mode)
	}
	publish(r, []*tres{res})
	r.Cov["exhaustive"] = false
	r.Cov["replay_of"] = path
}

// ---------------------------------------------------------------------------------------------
// C10 proper

func seqPrefix(n int, step uint64, vals []uint64) []topJ {
	var out []topJ
	for i := 1; i <= n; i++ {
		out = append(out, topJ{Op: "Set", K: uint64(i) * step, V: vals[i%len(vals)]})
	}
	return out
}

// shuffledPrefix: Sets of keys 1..n in a pseudo-random order (a fixed LCG, so the check is
// deterministic), value 1 or 3 by another bit of the same generator.
func shuffledPrefix(n int, seed uint64) []topJ {
	x := seed*0x9E3779B97F4A7C15 + 0xD1B54A32D192ED03
	next := func() uint64 {
		x = x*6364136223846793005 + 1442695040888963407
		return x >> 33
	}
	keys := make([]uint64, n)
	for i := range keys {
		keys[i] = uint64(i + 1)
	}
	for i := n - 1; i > 0; i-- {
		j := int(next() % uint64(i+1))
		keys[i], keys[j] = keys[j], keys[i]
	}
	var out []topJ
	for _, k := range keys {
		out = append(out, topJ{Op: "Set", K: k, V: 1 + 2*(next()&1)})
	}
	return out
}

var (
	c10KeysFull = []uint64{1, 2, 3, 4, 5, 6, 7, 8, 9, 1 << 63, maxU - 2, maxU - 1}
	c10ValsFull = []uint64{1, 2, 3, maxU}
	c10TSFull   = []uint64{1, 2, 3, 4, maxU}
	c10Iters    = []string{"even-keys:v+1", "all:3"}
)

func c10Jobs(tier, dir string) (jobs []*tjob) {
	th := tier == "thorough"
	pick := func(q, t int) int {
		if th {
			return t
		}
		return q
	}
	bud := func(q, t float64) float64 {
		if th {
			return t
		}
		return q
	}
	add := func(c *tcfg) {
		if c.ValidateEvery == 0 {
			c.ValidateEvery = 1
		}
		jobs = append(jobs, &tjob{Prop: "C10", Cfg: c, Dir: dir})
	}
	// (0) [first in the list: each takes milliseconds] start states built by inserting 11-13 keys in a shuffled order with values on both sides
	// of the thresholds: leaf and page-id geometries that ascending / descending fills never produce
	// (which page holds which key range depends on the order of the splits)
	for i := 0; i < pick(120, 400); i++ {
		n := 10 + i%5
		add(&tcfg{Name: fmt.Sprintf("ps80-shuffled-start-%d", i), PageSize: 80, Prefix: shuffledPrefix(n, uint64(i+1)),
			Keys: []uint64{2, 3, 4, 5, uint64(n)}, Vals: []uint64{1, 3}, TS: []uint64{2, 4},
			Iters: []string{"all:3"}, Reset: false, Depth: pick(3, 4), BudgetS: bud(8, 200)})
	}
	// (1) the full alphabet of DESIGN.md, shallow, smallest page size first (first counterexample = shortest)
	add(&tcfg{Name: "ps80-full-alphabet", PageSize: 80, Keys: c10KeysFull, Vals: c10ValsFull, TS: c10TSFull,
		Iters: c10Iters, Reset: true, Depth: pick(4, 5), BudgetS: bud(20, 400)})
	// (2) small alphabet, deep: splits, three levels, page recycling, reuse of recycled pages
	add(&tcfg{Name: "ps80-deep", PageSize: 80, Keys: []uint64{1, 2, 3, 4, 5, 6, 7, maxU - 1}, Vals: []uint64{1, 3}, TS: []uint64{2, 4},
		Iters: []string{"all:3"}, Reset: true, Depth: pick(10, 14), BudgetS: bud(30, 500)})
	// (3) all insertion orders of up to 8 (thorough 10) distinct keys, each key below or above the
	// threshold, followed by each DeleteBelow (and what follows it)
	add(&tcfg{Name: "ps80-all-insertion-orders", PageSize: 80, Keys: []uint64{1, 2, 3, 4, 5, 6, 7, 8, 9, 10}[:pick(8, 10)], Vals: []uint64{1, 3},
		TS: []uint64{1, 2, 4}, InsertOnly: true, Depth: pick(9, 11), BudgetS: bud(25, 500)})
	// (4) a three-level tree as the start state, keys clustered around its node boundaries
	add(&tcfg{Name: "ps80-three-levels", PageSize: 80, Prefix: seqPrefix(20, 10, []uint64{2, 1, 3}),
		Keys: []uint64{9, 10, 11, 19, 20, 21, 41, 100, 101, 199, 200, 201, maxU - 1}, Vals: []uint64{1, 3}, TS: []uint64{2, 3, 4},
		Iters: []string{"even-keys:v+1"}, Reset: true, Depth: pick(4, 5), BudgetS: bud(15, 400)})
	// (5) other small page sizes
	add(&tcfg{Name: "ps96-deep", PageSize: 96, Keys: []uint64{1, 2, 3, 4, 5, 6, 7, 8, maxU - 1}, Vals: []uint64{1, 3}, TS: []uint64{2, 4},
		Iters: []string{"all:3"}, Reset: true, Depth: pick(7, 11), BudgetS: bud(15, 500)})
	add(&tcfg{Name: "ps112-deep", PageSize: 112, Keys: []uint64{1, 2, 3, 4, 5, 6, 7, 8, 9, maxU - 1}, Vals: []uint64{1, 3}, TS: []uint64{2, 4},
		Iters: []string{"all:3"}, Reset: true, Depth: pick(7, 11), BudgetS: bud(15, 500)})
	if th {
		add(&tcfg{Name: "ps96-full-alphabet", PageSize: 96, Keys: c10KeysFull, Vals: c10ValsFull, TS: c10TSFull,
			Iters: c10Iters, Reset: true, Depth: 5, BudgetS: 400})
		add(&tcfg{Name: "ps112-full-alphabet", PageSize: 112, Keys: c10KeysFull, Vals: c10ValsFull, TS: c10TSFull,
			Iters: c10Iters, Reset: true, Depth: 5, BudgetS: 400})
		add(&tcfg{Name: "ps160-two-levels", PageSize: 160, Prefix: seqPrefix(12, 10, []uint64{2, 1, 3}),
			Keys: []uint64{9, 10, 11, 49, 50, 51, 60, 61, 121, maxU - 1}, Vals: []uint64{1, 3}, TS: []uint64{2, 3, 4},
			Iters: []string{"even-keys:v+1"}, Reset: true, Depth: 5, BudgetS: 400})
		add(&tcfg{Name: "ps4096-full-alphabet", PageSize: 4096, Keys: c10KeysFull, Vals: c10ValsFull, TS: c10TSFull,
			Iters: c10Iters, Reset: true, Depth: 4, BudgetS: 300})
	}
	// long histories
	n := pick(20000, 40000)
	for _, ps := range []int{80, 256, 4096} {
		for _, pat := range []string{"seq", "rev", "stride", "high"} {
			for _, vs := range []string{"index", "hash"} {
				if !th && vs == "hash" && pat != "stride" {
					continue
				}
				jobs = append(jobs, &tjob{Prop: "C10", Dir: dir, Long: &tlong{Name: fmt.Sprintf("long-ps%d-%s-%s", ps, pat, vs),
					PageSize: ps, Pattern: pat, N: n + 1, Vals: vs, DelEvery: n / 3}})
			}
		}
	}
	// fill past the first growth of the backing buffer (1 MiB), Reset, refill past it again in another
	// order with other values: whatever Reset leaves behind beyond what it hands back is met again
	refill := func(ps, keys int, p1, p2, vs string, del int) {
		jobs = append(jobs, &tjob{Prop: "C10", Dir: dir, Long: &tlong{Name: fmt.Sprintf("long-ps%d-%s-%s-reset-%s", ps, p1, vs, p2),
			PageSize: ps, Pattern: p1, N: keys + 1, Vals: vs, DelEvery: del, ResetThen: p2}})
	}
	refill(4096, 45000, "stride", "seq", "hash", 0)
	refill(4096, 45000, "seq", "stride", "index", 0)
	refill(4096, 45000, "rev", "seq", "index", 15000)
	refill(80, 20000, "stride", "rev", "hash", 0)
	refill(80, 20000, "seq", "seq", "index", 0)
	if th {
		refill(4096, 70000, "stride", "rev", "index", 0)
		refill(4096, 45000, "high", "stride", "hash", 15000)
		refill(256, 45000, "stride", "seq", "hash", 0)
		refill(256, 45000, "seq", "rev", "index", 15000)
		refill(96, 25000, "stride", "seq", "hash", 0)
		refill(112, 30000, "rev", "stride", "index", 10000)
	}
	for _, ps := range []int{256, 4096} {
		jobs = append(jobs, &tjob{Prop: "C10", Dir: dir, Long: &tlong{Name: fmt.Sprintf("long-file-ps%d-seq-index", ps),
			PageSize: ps, Persistent: true, Pattern: "seq", N: 2*n + 1, Vals: "index", DelEvery: n}})
	}
	if th {
		for _, ps := range []int{96, 112, 160} {
			jobs = append(jobs, &tjob{Prop: "C10", Dir: dir, Long: &tlong{Name: fmt.Sprintf("long-ps%d-stride-hash", ps),
				PageSize: ps, Pattern: "stride", N: n + 1, Vals: "hash", DelEvery: n / 3}})
		}
	}
	return jobs
}

func c10(tier string, r *ev.Run, replay string) {
	treeWorkerMain()
	if replay != "" {
		treeReplay("C10", r, replay)
		return
	}
	dir := treeWorkDir()
	defer os.RemoveAll(dir)
	jobs := c10Jobs(tier, dir)
	par, limit := 1, 40.0
	if tier == "thorough" {
		par, limit = 12, 560
	}
	for _, j := range jobs {
		j.Deadline = float64(time.Now().UnixNano())/1e9 + limit
	}
	results := runJobs(jobs, par, tier)
	publish(r, results)
	r.Cov["page_sizes"] = "80, 96, 112 (quick); + 160, 4096 (thorough); long histories at 80, 256, 4096 (+96,112,160 thorough)"
	ex := r.Cov["details"].(map[string]any)
	ex["alphabet"] = "Set(k,v), DeleteBelow(ts), IterateKV(rewrite), Reset; per search: see 'searches' (full alphabet: keys 1..9, 2^63, 2^64-3, 2^64-2; values 1,2,3,2^64-1; ts 1,2,3,4,2^64-1)"
	ex["oracle"] = "after EVERY transition: Get(k)==model for every tracked key (0 if absent), one read-only IterateKV visits exactly the live pairs once each, no panic; DeleteBelow(ts) removes exactly model values < ts; IterateKV(f) sees the live pairs once each and applies non-zero rewrites"
	ex["state_key"] = "bytes of pages 1..nextPage-1 + nextPage + freePage + private stats + len(data) + len(buffer)"
	r.Assume = []string{
		"successors are produced by writing the exact white-box state (page bytes, nextPage, freePage, stats) of the expanded state back into one live tree of identical buffer geometry; every expanded state's history is also executed from scratch (after Reset) and must reach the same state key (counter expanded_states_revalidated_from_scratch), and the first 16 violations per key are re-executed from scratch before being reported",
		"an in-memory tree after Reset is byte-identical to NewTree (verified at the start of every search and by the Reset transition from every expanded state; if it were not, one NewTree per replay is used)",
		"Stats() is not judged by C10 (the statement does not mention it)",
		"if z.Tree has fields beyond buffer/data/nextPage/freePage/stats: when they are all plain data (integers, floats, bools, arrays/structs of those) they are carried as opaque bytes in every snapshot, restore, clone and in the state key (shallow struct copy = exact copy); when any of them holds a pointer, map, slice, string, channel, func or interface, restore and clone probes are switched off and every successor is produced by replaying its history from scratch (slower, still sound); the per-search note says which case applied",
		"fill / Reset / refill long histories (page sizes 4096 and 80; +96, 112, 256 thorough): fill past the first growth of the backing buffer, Reset, refill past it again in another key order with other values, full contents check (Get of every key of both fills + IterateKV) after Reset, every 8192 Sets, at every reallocation and at the end",
		"growth of the backing buffer inside an operation: for every transition S --Set--> S' of a search that allocates a new pages at the frontier (and reaches a new state), the Set is re-executed from S on a = 1..a independent clones of S (export VerifTreeBuildTight: same page bytes and fields on a calloc buffer with k-1 spare pages and no spare capacity) so that the k-th allocation reallocates and moves the buffer; each clone must first read back exactly the contents of S (self-check of the surgery) and is then judged by the same oracle (counters tight_buffer_probes / ..._where_the_buffer_moved)",
		"white-box equality with an empty tree is never asserted: when a Reset transition reaches a state that is not byte-identical to an empty tree, that state is additionally refilled with 2*maxKeys+2 ascending and descending Sets under the full oracle (counter reset_states_not_identical_to_empty_tree_refill_probed; 0 on a tree whose Reset is exact)",
		"long histories: full contents check (Get of every key ever set + probes, IterateKV) after every DeleteBelow/IterateKV, at every growth of the backing buffer, every 8192 Sets and at the end; each Set is checked by Get of that key and of the previous one",
	}
}
