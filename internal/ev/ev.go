// Package ev writes evidence files, replay files and VIOLATION / KNOWN-FINDING lines.
package ev

import (
	"crypto/sha1"
	"encoding/hex"
	"encoding/json"
	"fmt"
	"os"
	"path/filepath"
	"sort"
	"strconv"
	"sync"
	"time"
)

// Root is the /verif directory (overridable for tests of the harness itself).
var Root = func() string {
	if r := os.Getenv("VERIF_ROOT"); r != "" {
		return r
	}
	return "/verif"
}()

type Coverage map[string]any

type Evidence struct {
	PropertyID  string   `json:"property_id"`
	Tier        string   `json:"tier"`
	Seed        int64    `json:"seed"`
	Level       string   `json:"level"`
	Coverage    Coverage `json:"coverage"`
	Assumptions []string `json:"assumptions"`
	WallS       float64  `json:"wall_s"`
	Violations  int      `json:"violations"`
	Known       []string `json:"known_findings_hit,omitempty"`
}

type Finding struct {
	Property string `json:"property"`
	Key      string `json:"key"`
	What     string `json:"what"`
	Status   string `json:"status"` // open | fixed
	Commit   string `json:"commit,omitempty"`
}

// Run collects the outcome of one check run.
type Run struct {
	mu       sync.Mutex
	ID       string
	Tier     string
	Seed     int64
	Level    string
	start    time.Time
	findings []Finding
	viol     map[string]string // classifier key -> replay path (first)
	violN    int
	knownHit map[string]bool
	Assume   []string
	Cov      Coverage
	samples  []any
}

func Seed() int64 {
	if s := os.Getenv("VERIF_SEED"); s != "" {
		if v, err := strconv.ParseInt(s, 10, 64); err == nil {
			return v
		}
	}
	return 1
}

func NewRun(id, tier, level string) *Run {
	r := &Run{ID: id, Tier: tier, Seed: Seed(), Level: level, start: time.Now(),
		viol: map[string]string{}, knownHit: map[string]bool{}, Cov: Coverage{}}
	b, err := os.ReadFile(filepath.Join(Root, "known_findings.json"))
	if err == nil {
		var all []Finding
		if err := json.Unmarshal(b, &all); err != nil {
			Fatalf("known_findings.json: %v", err)
		}
		for _, f := range all {
			if f.Property == id {
				r.findings = append(r.findings, f)
			}
		}
	}
	return r
}

// Fatalf reports a harness error (exit 2): never a VIOLATION.
func Fatalf(format string, a ...any) {
	fmt.Fprintf(os.Stderr, "HARNESS-ERROR: "+format+"\n", a...)
	os.Exit(2)
}

// Sample records up to 8 sample cases for the evidence file.
func (r *Run) Sample(s any) {
	r.mu.Lock()
	defer r.mu.Unlock()
	if len(r.samples) < 8 {
		r.samples = append(r.samples, s)
	}
}

// Violation records one violation. key classifies the failing trace; if an open known finding
// has that key it is reported as KNOWN-FINDING instead. replay is any JSON-able description
// sufficient to re-run the failing case. Only the first violation per key writes a replay file.
func (r *Run) Violation(key, what string, replay any) {
	r.mu.Lock()
	defer r.mu.Unlock()
	for _, f := range r.findings {
		if f.Status == "open" && f.Key == key {
			r.knownHit[key] = true
			return
		}
	}
	r.violN++
	if _, ok := r.viol[key]; ok {
		return
	}
	body, _ := json.MarshalIndent(map[string]any{"property": r.ID, "key": key, "what": what, "replay": replay}, "", " ")
	h := sha1.Sum(body)
	p := filepath.Join(Root, "replays", fmt.Sprintf("%s-%s.json", r.ID, hex.EncodeToString(h[:5])))
	_ = os.MkdirAll(filepath.Dir(p), 0o755)
	_ = os.WriteFile(p, body, 0o644)
	r.viol[key] = p
	fmt.Printf("violation detail: property=%s key=%s %s\n", r.ID, key, what)
}

func (r *Run) NumViolations() int {
	r.mu.Lock()
	defer r.mu.Unlock()
	return r.violN
}

// Finish writes the evidence file, prints the result lines and returns the exit code.
func (r *Run) Finish() int {
	r.mu.Lock()
	defer r.mu.Unlock()
	if _, ok := r.Cov["samples"]; !ok {
		if r.samples == nil {
			r.samples = []any{} // never null: the schema wants a list
		}
		r.Cov["samples"] = r.samples
	}
	e := Evidence{PropertyID: r.ID, Tier: r.Tier, Seed: r.Seed, Level: r.Level, Coverage: r.Cov,
		Assumptions: r.Assume, WallS: time.Since(r.start).Seconds(), Violations: r.violN}
	if e.Assumptions == nil {
		e.Assumptions = []string{}
	}
	var kh []string
	for k := range r.knownHit {
		kh = append(kh, k)
	}
	sort.Strings(kh)
	e.Known = kh
	for _, k := range kh {
		for _, f := range r.findings {
			if f.Key == k {
				fmt.Printf("KNOWN-FINDING: property=%s %s [%s]\n", r.ID, f.What, f.Key)
			}
		}
	}
	b, _ := json.MarshalIndent(e, "", " ")
	evDir := filepath.Join(Root, "evidence")
	if d := os.Getenv("VERIF_EVIDENCE_DIR"); d != "" {
		evDir = d // runs against seeded changes must not overwrite the evidence of the real tree
	}
	_ = os.MkdirAll(evDir, 0o755)
	if err := os.WriteFile(filepath.Join(evDir, r.ID+".json"), b, 0o644); err != nil {
		Fatalf("write evidence: %v", err)
	}
	var keys []string
	for k := range r.viol {
		keys = append(keys, k)
	}
	sort.Strings(keys)
	for _, k := range keys {
		fmt.Printf("VIOLATION property=%s replay=%s\n", r.ID, r.viol[k])
	}
	fmt.Printf("%s %s: violations=%d known=%d wall=%.1fs coverage=%s\n", r.ID, r.Tier, r.violN, len(kh), e.WallS, brief(r.Cov))
	if len(keys) > 0 {
		return 1
	}
	return 0
}

func brief(c Coverage) string {
	m := map[string]any{}
	for k, v := range c {
		if k == "samples" || k == "rule" || k == "explanation" || k == "per_scenario" || k == "per_config" || k == "configurations" || k == "searches" || k == "chunk_family_plan" || k == "bfs_per_run" || len(fmt.Sprint(v)) > 300 {
			continue
		}
		m[k] = v
	}
	b, _ := json.Marshal(m)
	return string(b)
}
