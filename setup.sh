#!/bin/bash
# Builds the framework from files on disk only (offline) and warms the Go build cache for
# both harness flavours so that the first check does not pay for it.
set -e
cd "$(dirname "$0")"
export GOFLAGS=-mod=mod GOPROXY=off GOSUMDB=off GOTOOLCHAIN=local CGO_ENABLED=0
mkdir -p .build/tools .build/setup evidence replays
go1.26 build -o .build/tools/instrument ./tools/instrument
# warm: sequential harness
.build/tools/instrument -repo /repo -verif "$PWD" -out .build/setup/seq -mode seq -overlay .build/setup/seq/overlay.json
go1.26 build -tags verif -overlay .build/setup/seq/overlay.json -o .build/setup/zcheck ./cmd/zcheck
# warm: scheduled harness, normal and race builds
.build/tools/instrument -repo /repo -verif "$PWD" -out .build/setup/sched -mode sched -overlay .build/setup/sched/overlay.json
go1.26 build -tags verif,verifsched -overlay .build/setup/sched/overlay.json -o .build/setup/ccheck ./cmd/ccheck
CGO_ENABLED=1 go1.26 build -race -tags verif,verifsched -overlay .build/setup/sched/overlay.json -o .build/setup/ccheck.race ./cmd/ccheck
rm -rf .build/setup
echo "setup ok"
